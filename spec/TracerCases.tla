---------------------------- MODULE TracerCases ----------------------------
(* C03 / C15: the space of scripted programs and handler decision functions.  *)
(* Pure operators only (no variables): used by Tracer (MC), Tracer_Gen (case    *)
(* generation) and the trace specs.                                              *)
(*                                                                               *)
(* A program is a tuple of task scripts, task 1 = the main process.  An op is    *)
(*   [k |-> kind, a |-> name, n |-> number]                                      *)
(*   T  traced marker call  mkdirat(a)           U  untraced call mkdir(a)       *)
(*      (kind "R" = T on the shared name "mr": the same path trapped repeatedly,  *)
(*       possibly from different tasks; a repeated mkdirat really returns EEXIST) *)
(*   N  traced call decided by its NAME only: symlink("x", a); the handler sees   *)
(*      "symlink" every time (CheckSyscall), the effect name a is unique          *)
(* A decision function is indexed by OCCURRENCE: dec[key] is the sequence of      *)
(* answers the handler gives to the 1st, 2nd, ... consultation about that key     *)
(* (key = path name for T, syscall name for N), the last answer persisting.       *)
(*   F/V/C  fork / vfork / thread running task n                                 *)
(*   W  wait for every task created so far       S  queue SIGUSR1 to itself      *)
(*   Z  execve of the same image; the ops after Z are run by the new image        *)
(*   K  a call the filter itself kills            X  exit_group(n)               *)
(*   J  SIGKILL task n (C15)                      P  setsid() (C15)              *)
(* A process task ends with an implicit exit_group(0), a thread with exit(0).    *)
EXTENDS Integers, Sequences, FiniteSets, TLC

CONSTANTS MainAlpha,    \* kinds allowed in the main script, e.g. {"T","U","S","K","W","F","V","C","X3"}
          ChildAlpha,   \* kinds allowed in spawned tasks
          MaxMain, MaxChild,   \* script lengths
          MaxSpawn,     \* spawn ops in the whole program (<= 2: at most 3 tasks)
          MaxT,         \* markers in the whole program
          MaxTotal      \* ops in the whole program

Spawns == {"F", "V", "C"}
Decisions == {"allow", "ban", "kill"}
Op(k, a, n) == [k |-> k, a |-> a, n |-> n]
Name(pfx, t, i) == pfx \o ToString(t) \o ToString(i)

KindSeqs(A, n) == UNION { [1..m -> A] : m \in 0..n }
Cnt(q, S) == Cardinality({ i \in DOMAIN q : q[i] \in S })
Rank(q, i) == Cardinality({ j \in 1..i : q[j] \in Spawns })

\* well-formed kind sequence: K / X.. only as the last op, W only after a spawn of the same task,
\* J only after a spawn (it needs a target)
Terminal == {"K", "X0", "X3"}
WF(q) == /\ \A i \in DOMAIN q : q[i] \in Terminal => i = Len(q)
         \* the new image knows nothing of tasks created before the exec
         /\ \A i, j \in DOMAIN q : (i < j /\ q[i] = "Z") => q[j] \notin ({"W", "J", "Z"} \cup Spawns)
         /\ \A i \in DOMAIN q : q[i] \in {"W", "J"} => Rank(q, i) > 0

\* concrete ops: task t, spawn targets are base+1, base+2, ...
Mk(x, t, i, j) ==
  CASE x = "T" -> Op("T", Name("m", t, i), 0)
    [] x = "R" -> Op("T", "mr", 0)
    [] x = "N" -> Op("N", Name("n", t, i), 0)
    [] x = "U" -> Op("U", Name("u", t, i), 0)
    [] x \in Spawns -> Op(x, "", j)
    [] x = "J" -> Op("J", "", j)
    [] x = "X0" -> Op("X", "", 0)
    [] x = "X3" -> Op("X", "", 3)
    [] OTHER -> Op(x, "", 0)
Conc(t, q, base) == [i \in DOMAIN q |-> Mk(q[i], t, i, base + Rank(q, i))]

M1(ns) == { q \in KindSeqs(MainAlpha, MaxMain) : WF(q) /\ Cnt(q, Spawns) = ns }
C1(ns) == { q \in KindSeqs(ChildAlpha, MaxChild) : WF(q) /\ Cnt(q, Spawns) = ns }

TracedKinds == {"T", "R", "N"}
Fits(qs) == /\ Cnt(qs[1], TracedKinds) + (IF Len(qs) > 1 THEN Cnt(qs[2], TracedKinds) ELSE 0)
                 + (IF Len(qs) > 2 THEN Cnt(qs[3], TracedKinds) ELSE 0) <= MaxT
            /\ Len(qs[1]) + (IF Len(qs) > 1 THEN Len(qs[2]) ELSE 0)
                 + (IF Len(qs) > 2 THEN Len(qs[3]) ELSE 0) <= MaxTotal

Scripts ==
  { <<Conc(1, q1, 1)>> : q1 \in { q \in M1(0) : Fits(<<q>>) } }
  \cup { <<Conc(1, q1q2[1], 1), Conc(2, q1q2[2], 2)>> :
           q1q2 \in { p \in M1(1) \X C1(0) : Fits(p) } }
  \cup (IF MaxSpawn < 2 THEN {} ELSE
       { <<Conc(1, p[1], 1), Conc(2, p[2], 2), Conc(3, p[3], 3)>> :
           p \in { p \in M1(2) \X C1(0) \X C1(0) : Fits(p) } }
       \cup
       { <<Conc(1, p[1], 1), Conc(2, p[2], 2), Conc(3, p[3], 3)>> :
           p \in { p \in M1(1) \X C1(1) \X C1(0) : Fits(p) } })

\* what the handler can tell apart: the path of a marker call, the name of a name-decided call
KeyOf(o) == IF o.k = "N" THEN "symlink" ELSE o.a
TracedIdx(s) == { ti \in (DOMAIN s) \X (1..(MaxMain + MaxChild)) :
                    ti[2] \in DOMAIN s[ti[1]] /\ s[ti[1]][ti[2]].k \in {"T", "N"} }
Keys(s) == { KeyOf(s[ti[1]][ti[2]]) : ti \in TracedIdx(s) }
Occ(s, key) == Cardinality({ ti \in TracedIdx(s) : KeyOf(s[ti[1]][ti[2]]) = key })
Slots(s) == { kj \in Keys(s) \X (1..(MaxMain + 2 * MaxChild)) : kj[2] <= Occ(s, kj[1]) }
\* every assignment of an answer to every (key, occurrence)
DecFuns(s) == { [key \in Keys(s) |-> [j \in 1..Occ(s, key) |-> D[<<key, j>>]]] : D \in [Slots(s) -> Decisions] }
PolicyAt(p, i) == p[IF i > Len(p) THEN Len(p) ELSE i]

Cases == UNION { { [script |-> s, dec |-> d] : d \in DecFuns(s) } : s \in Scripts }

(* -------- structure of a script -------- *)
NTasks(s) == Len(s)
\* the spawn site of task j: <<parent task, op index>>
SpawnSite(s, j) == CHOOSE ti \in (DOMAIN s) \X (1..(MaxMain + MaxChild)) :
                      /\ ti[2] \in DOMAIN s[ti[1]]
                      /\ s[ti[1]][ti[2]].k \in Spawns /\ s[ti[1]][ti[2]].n = j
ParOf(s) == [j \in DOMAIN s |-> IF j = 1 THEN 0 ELSE SpawnSite(s, j)[1]]
KindOf(s) == [j \in DOMAIN s |-> IF j = 1 THEN "main" ELSE s[SpawnSite(s, j)[1]][SpawnSite(s, j)[2]].k]
LeaderOf(s) == LET P == ParOf(s) K == KindOf(s) IN
  [j \in DOMAIN s |-> IF K[j] # "C" THEN j ELSE IF K[P[j]] # "C" THEN P[j] ELSE P[P[j]]]
=============================================================================
