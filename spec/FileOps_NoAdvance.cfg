CONSTANTS MaxLen = 4
  AdvanceFdIndex = FALSE
  CompactErrors = FALSE
SPECIFICATION FSpec
INVARIANTS Aligned NoneLost
CHECK_DEADLOCK FALSE
