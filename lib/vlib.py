"""Shared machinery for the go-sandbox TLA+ verification checks.

A check is a python module checks/Cnn.py exposing run(ctx).  It uses ctx to
  * build the Go harness (vdrive) from the repository's *current working tree* with -tags verif
  * build C probes
  * run TLC (model checking, case generation, trace / observation judging)
  * report violations (matched against known_findings.json) and write the evidence file.

Exit codes: 0 = property held on everything explored (KNOWN-FINDING lines allowed)
            1 = VIOLATION line printed
            2 = inconclusive (tool failure, time-out, model disagrees with kernel truth, ...)
"""
import hashlib
import json
import os
import random
import re
import shutil
import subprocess
import sys
import time

VERIF = os.path.dirname(os.path.dirname(os.path.abspath(__file__)))
TLA_JARS = "/opt/veriftools/tla/tla2tools.jar:/opt/veriftools/tla/CommunityModules-deps.jar"


class Inconclusive(Exception):
    pass


class TlcResult:
    def __init__(self, rc, out, wall):
        self.rc = rc
        self.out = out
        self.wall = wall
        self.generated = 0
        self.distinct = 0
        m = None
        for m in re.finditer(r"(\d+) states generated, (\d+) distinct states found", out):
            pass
        if m:
            self.generated = int(m.group(1))
            self.distinct = int(m.group(2))
        self.no_error = "Model checking completed. No error has been found." in out
        self.invariant = None
        m = re.search(r"Error: Invariant (\S+) is violated", out)
        if m:
            self.invariant = m.group(1)
        m = re.search(r"Error: Action property (\S+) is violated", out)
        if m:
            self.invariant = m.group(1)
        self.temporal = re.search(r"Temporal propert\w+ .*violated", out) is not None
        self.deadlock = "Error: Deadlock reached" in out
        self.postcondition_failed = "Postcondition" in out and "violated" in out or "postcondition" in out.lower() and "false" in out.lower()
        self.assume_failed = re.search(r"Assumption .* is false", out) is not None
        self.timed_out = rc == 124
        # a genuine tool error: anything that is neither clean nor a property violation
        self.tool_error = (not self.no_error and self.invariant is None and not self.temporal
                           and not self.deadlock and not self.postcondition_failed
                           and not self.assume_failed)

    def coverage_zero(self):
        """action / expression locations that -coverage reported with count 0"""
        return re.findall(r"^<(\w+) line [^>]*>: 0:0$", self.out, re.M)

    def tail(self, n=40):
        return "\n".join(self.out.splitlines()[-n:])


class Ctx:
    def __init__(self, prop, tier, seed, replay=None):
        self.prop = prop
        self.tier = tier
        self.seed = seed
        self.replay = replay
        self.rng = random.Random(seed * 1000003 + int(hashlib.sha1(prop.encode()).hexdigest()[:6], 16))
        self.repo = os.environ.get("VERIF_REPO", "/repo")
        self.t0 = time.time()
        base = os.environ.get("VERIF_SCRATCH", "/var/tmp")
        self.scratch = os.path.join(base, "verif.%s.%d" % (prop, os.getpid()))
        shutil.rmtree(self.scratch, ignore_errors=True)
        os.makedirs(self.scratch)
        self.keep = bool(os.environ.get("VERIF_KEEP"))
        self.violations = []     # unlisted
        self.known_hits = []     # matched open findings
        self.notes = []
        self.states = 0
        self.transitions = 0
        self.traces = 0
        self.samples = []
        self.cov = {}
        self.assumptions = []
        self._vdrive = {}
        self._probes = {}
        self._tlc_n = 0
        self.findings = []
        import glob
        p = os.path.join(VERIF, "known_findings.json")
        if os.path.exists(p):
            self.findings = json.load(open(p)).get("findings", [])
        for p in glob.glob(os.path.join(VERIF, "known_findings.d", "*.json")):   # development: not yet merged
            for f in json.load(open(p)).get("findings", []):
                if f not in self.findings:
                    self.findings.append(f)
        self.env = dict(os.environ)
        self.env.update({"GOFLAGS": "-mod=mod", "GOPROXY": "off", "CGO_ENABLED": "0"})
        self.env.pop("GOSUMDB", None)
        self.env.pop("GOTOOLCHAIN", None)
        self.env.pop("JAVA_TOOL_OPTIONS", None)

    # ------------------------------------------------------------------ utilities
    def log(self, *a):
        print("[%s %6.1fs]" % (self.prop, time.time() - self.t0), *a, flush=True)

    def path(self, *a):
        p = os.path.join(self.scratch, *a)
        os.makedirs(os.path.dirname(p), exist_ok=True)
        return p

    def mkdir(self, *a):
        p = os.path.join(self.scratch, *a)
        os.makedirs(p, exist_ok=True)
        return p

    def quick(self):
        return self.tier == "quick"

    def pick(self, quick, thorough):
        return quick if self.tier == "quick" else thorough

    def sh(self, cmd, timeout=600, cwd=None, env=None, check=False, input=None):
        e = dict(self.env)
        if env:
            e.update(env)
        try:
            r = subprocess.run(cmd, cwd=cwd, env=e, input=input, timeout=timeout,
                               stdout=subprocess.PIPE, stderr=subprocess.STDOUT,
                               shell=isinstance(cmd, str), text=True, errors="replace")
        except subprocess.TimeoutExpired as ex:
            o = ex.stdout or ""
            if isinstance(o, bytes):
                o = o.decode(errors="replace")
            if check:
                raise Inconclusive("timeout after %ss: %s\n%s" % (timeout, cmd, o[-2000:]))
            return 124, o
        if check and r.returncode != 0:
            raise Inconclusive("command failed (%d): %s\n%s" % (r.returncode, cmd, r.stdout[-4000:]))
        return r.returncode, r.stdout

    # ------------------------------------------------------------------ builds
    def build_vdrive(self, name, race=False):
        """go build -tags verif of harness/cmd/<name> against the repository's current working tree"""
        if not race and name in self._vdrive:
            return self._vdrive[name]
        hdir = os.path.join(VERIF, "harness")
        modfile = self.path("gomod", "go.mod")
        src = open(os.path.join(hdir, "go.mod")).read()
        src = re.sub(r"(replace github.com/criyle/go-sandbox => )\S+", r"\g<1>" + self.repo, src)
        open(modfile, "w").write(src)
        shutil.copy(os.path.join(self.repo, "go.sum"), self.path("gomod", "go.sum"))
        out = self.path("bin", name + ("-race" if race else ""))
        cmd = ["go", "build", "-modfile=" + modfile, "-tags", "verif", "-o", out]
        env = {}
        if race:
            cmd.insert(2, "-race")
            env["CGO_ENABLED"] = "1"
        cmd.append("./cmd/" + name)
        t = time.time()
        rc, o = self.sh(cmd, cwd=hdir, timeout=900, env=env)
        if rc != 0:
            raise Inconclusive("harness build failed against %s:\n%s" % (self.repo, o[-6000:]))
        self.log("built %s%s in %.1fs" % (name, " (race)" if race else "", time.time() - t))
        if not race:
            self._vdrive[name] = out
        return out

    def probe(self, name, flags=()):
        if name in self._probes:
            return self._probes[name]
        src = os.path.join(VERIF, "probes", name + ".c")
        out = self.path("probes", name)      # separate dir: a driver and a probe may share a name
        self.sh(["gcc", "-static", "-O1", "-Wall", "-o", out, src] + list(flags), check=True)
        self._probes[name] = out
        return out

    def vdrive(self, name, args, timeout=900, env=None, cwd=None, check=True, input=None):
        """run harness binary cmd/<name> with args; returns stdout+stderr text"""
        exe = self.build_vdrive(name)
        rc, o = self.sh([exe] + list(args), timeout=timeout, env=env, cwd=cwd or self.scratch, input=input)
        if check and rc != 0:
            raise Inconclusive("driver %s %s exited %d:\n%s" % (name, " ".join(args[:3]), rc, o[-6000:]))
        return o

    # ------------------------------------------------------------------ TLC
    def tlc(self, module, cfg=None, files=None, workers=1, timeout=600, simulate=None,
            coverage=False, deadlock=None, extra=(), heap="8g", dfs=False, count=True, depth=None,
            defines=None):
        """Run TLC on spec/<module>.tla in a scratch copy of spec/.
        files: {name: text-or-list-of-json-objects} written next to the spec (trace / case files)
        cfg: name of a cfg in spec/ (default <module>.cfg) or literal cfg text (contains newline)
        """
        self._tlc_n += 1
        d = self.mkdir("tlc%d" % self._tlc_n)
        sdir = os.path.join(VERIF, "spec")
        for root, _, fs in os.walk(sdir):
            for f in fs:
                if f.endswith((".tla", ".cfg")):
                    shutil.copy(os.path.join(root, f), os.path.join(d, f))
        for name, content in (files or {}).items():
            with open(os.path.join(d, name), "w") as fh:
                if isinstance(content, str):
                    fh.write(content)
                else:
                    for rec in content:
                        fh.write(json.dumps(rec, separators=(",", ":")) + "\n")
        if cfg is None:
            cfg = module + ".cfg"
        if "\n" in cfg:
            open(os.path.join(d, module + "_gen.cfg"), "w").write(cfg)
            cfg = module + "_gen.cfg"
        jopts = ["-XX:+UseParallelGC", "-Xmx" + heap, "-Xss256m"]
        if dfs:
            jopts.append("-Dtlc2.tool.queue.IStateQueue=StateDeque")
        cmd = ["timeout", str(int(timeout)), "java"] + jopts + ["-cp", TLA_JARS, "tlc2.TLC",
               "-workers", str(workers), "-metadir", os.path.join(d, "meta"), "-config", cfg,
               "-noGenerateSpecTE"]
        if simulate:
            cmd += ["-simulate", simulate]
        if depth:
            cmd += ["-depth", str(depth)]
        if coverage:
            cmd += ["-coverage", "1"]
        if deadlock is False:
            cmd += ["-deadlock"]
        cmd += list(extra)
        cmd.append(module + ".tla")
        t = time.time()
        rc, o = self.sh(cmd, cwd=d, timeout=timeout + 30)
        r = TlcResult(rc, o, time.time() - t)
        r.dir = d
        if count:
            self.states += r.distinct
            self.transitions += r.generated
        open(os.path.join(d, "tlc.out"), "w").write(o)
        self.log("tlc %s (%s): generated=%d distinct=%d %s %.1fs" % (
            module, cfg if len(cfg) < 40 else "cfg", r.generated, r.distinct,
            "ok" if r.no_error else "NOT-CLEAN", r.wall))
        return r

    def tlc_ok(self, what, r):
        """raise Inconclusive unless the run is clean; callers handle expected violations themselves"""
        if r.timed_out:
            raise Inconclusive("TLC timed out: %s" % what)
        if not r.no_error:
            raise Inconclusive("TLC did not finish cleanly (%s):\n%s" % (what, r.tail(60)))

    def read_ndjson(self, path):
        out = []
        if not os.path.exists(path):
            return out
        for line in open(path):
            line = line.strip()
            if line:
                out.append(json.loads(line))
        return out

    # ------------------------------------------------------------------ verdicts
    def violation(self, key, what, case=None):
        """A breach of the property observed on the real code.  key identifies the failing
        input / call site / history for known-findings matching."""
        for f in self.findings:
            if f.get("property") == self.prop and f.get("status") == "open" and _key_match(f.get("key", ""), key):
                if f["key"] not in [k for k, _ in self.known_hits]:
                    self.known_hits.append((f["key"], f.get("what", what)))
                return "known"
        for k, _, _ in self.violations:
            if k == key:
                self.dup_violations = getattr(self, "dup_violations", 0) + 1
                return "violation"
        if len(self.violations) >= 25:
            self.dup_violations = getattr(self, "dup_violations", 0) + 1
            return "violation"
        rdir = os.path.join(VERIF, "replays")
        os.makedirs(rdir, exist_ok=True)
        rp = os.path.join(rdir, "%s-%s-%d-%d.json" % (self.prop, self.tier, self.seed, len(self.violations)))
        json.dump({"property": self.prop, "tier": self.tier, "seed": self.seed, "key": key,
                   "what": what, "case": case}, open(rp, "w"), indent=1, default=str)
        self.violations.append((key, what, rp))
        return "violation"

    def note(self, s):
        self.notes.append(s)
        self.log("note:", s)

    def sample(self, obj, limit=6):
        if len(self.samples) < limit:
            self.samples.append(obj)

    def finish(self, evaluations=None, distinct=None, rule=None, exhaustive=None):
        wall = time.time() - self.t0
        cov = {
            "states": int(self.states),
            "transitions": int(self.transitions),
            "traces_validated_against_impl": int(self.traces),
            "samples": self.samples or ["(no sample recorded)"],
        }
        if evaluations is not None:
            cov["evaluations"] = int(evaluations)
        if distinct is not None:
            cov["distinct_nontrivial"] = int(distinct)
        if rule:
            cov["rule"] = rule
        if exhaustive is not None:
            cov["exhaustive"] = bool(exhaustive)
        cov.update(self.cov)
        cov["known_findings_hit"] = [k for k, _ in self.known_hits]
        cov["notes"] = self.notes[:40]
        ev = {
            "property_id": self.prop, "tier": self.tier, "seed": int(self.seed),
            "level": "model_checking", "coverage": cov,
            "assumptions": self.assumptions, "wall_s": round(wall, 2),
            "violations": len(self.violations),
        }
        if not self.replay and not os.environ.get("VERIF_NOEVIDENCE"):
            os.makedirs(os.path.join(VERIF, "evidence"), exist_ok=True)
            tmp = os.path.join(VERIF, "evidence", ".%s.tmp" % self.prop)
            json.dump(ev, open(tmp, "w"), indent=1, default=str)
            os.replace(tmp, os.path.join(VERIF, "evidence", self.prop + ".json"))
            # the schema allows one tier per property in evidence/: keep the last run of each tier next to it
            try:
                os.makedirs(os.path.join(VERIF, "evidence_by_tier"), exist_ok=True)
                json.dump(ev, open(os.path.join(VERIF, "evidence_by_tier", "%s.%s.json" % (self.prop, self.tier)), "w"), indent=1, default=str)
            except OSError:
                pass
        for k, w in self.known_hits:
            print("KNOWN-FINDING: property=%s %s (%s)" % (self.prop, k, w), flush=True)
        for k, w, rp in self.violations:
            print("VIOLATION property=%s replay=%s" % (self.prop, rp), flush=True)
            print("  key=%s: %s" % (k, w), flush=True)
        self.log("done: states=%d transitions=%d traces=%d violations=%d known=%d wall=%.1fs" % (
            self.states, self.transitions, self.traces, len(self.violations), len(self.known_hits), wall))
        return 1 if self.violations else 0

    def cleanup(self):
        if not self.keep:
            shutil.rmtree(self.scratch, ignore_errors=True)


def _key_match(pattern, key):
    if pattern.endswith("*"):
        return key.startswith(pattern[:-1])
    return pattern == key


def main(argv):
    import importlib.util
    if len(argv) < 3:
        print("usage: check <Cnn> quick|thorough | check <Cnn> --replay <file>")
        return 2
    prop = argv[1]
    replay = None
    if argv[2] == "--replay":
        replay = json.load(open(argv[3]))
        tier = replay.get("tier", "quick")
        seed = int(replay.get("seed", 0))
    else:
        tier = argv[2]
        seed = int(os.environ.get("VERIF_SEED", "0") or 0)
    if tier not in ("quick", "thorough"):
        print("bad tier", tier)
        return 2
    mod_path = os.path.join(VERIF, "checks", prop + ".py")
    if not os.path.exists(mod_path):
        print("no such check", prop)
        return 2
    sys.path.insert(0, os.path.join(VERIF, "lib"))
    sys.path.insert(0, os.path.join(VERIF, "checks"))
    spec = importlib.util.spec_from_file_location("check_" + prop, mod_path)
    mod = importlib.util.module_from_spec(spec)
    spec.loader.exec_module(mod)
    ctx = Ctx(prop, tier, seed, replay)
    try:
        ret = mod.run(ctx)
        rc = ctx.finish(**(ret or {}))
    except Inconclusive as e:
        print("INCONCLUSIVE property=%s: %s" % (prop, e), flush=True)
        rc = 2
    except Exception:
        import traceback
        traceback.print_exc()
        print("INCONCLUSIVE property=%s: internal error in the check" % prop, flush=True)
        rc = 2
    finally:
        ctx.cleanup()
    return rc
