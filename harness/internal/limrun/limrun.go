// Package limrun runs the probe probes/limits.c under each of the three go-sandbox runners
// (runner/ptrace, runner/unshare, container.Environment.Execve with sync before / after exec)
// and collects the runner's Result together with the probe's own report (kernel truth).
// Shared by the drivers of the families `status` (C09) and `limits` (C08).  No oracle here.
package limrun

import (
	"bytes"
	"context"
	"fmt"
	"os"
	"runtime"
	"strconv"
	"strings"
	"sync"
	"syscall"
	"time"

	"golang.org/x/sys/unix"

	"github.com/criyle/go-sandbox/container"
	"github.com/criyle/go-sandbox/pkg/mount"
	"github.com/criyle/go-sandbox/pkg/rlimit"
	"github.com/criyle/go-sandbox/pkg/seccomp"
	"github.com/criyle/go-sandbox/pkg/seccomp/libseccomp"
	"github.com/criyle/go-sandbox/runner"
	"github.com/criyle/go-sandbox/runner/ptrace"
	"github.com/criyle/go-sandbox/runner/unshare"
)

// Line is one report line of the probe: "<tag> <v> [<w> <x>]".
type Line struct {
	T string `json:"t"`
	V int64  `json:"v"`
	// raw text of the remaining fields (64-bit values of the rlimit report)
	Rest []string `json:"-"`
}

// Spec describes one run.
type Spec struct {
	Runner    string // ptrace | unshare | cbefore | cafter
	Args      []string
	Child     string // value of LIMITS_CHILD
	RLimits   []rlimit.RLimit
	Limit     runner.Limit
	KillNr    int  // > 0: the seccomp filter kills syscall number KillNr (real SIGSYS)
	ExtSignal int  // > 0: send this signal from outside when the probe reports "ready"
	BadExec   bool // run a path that does not exist instead of the probe
	// Core: core dumps enabled for the program: RLIMIT_CORE soft > 0 (through the runner's RLimits)
	// and a writable working directory for the kernel's "core" file
	Core bool
	// Cancel: the caller's context is cancelled around the end of the program:
	//   "afterend" (container, sync after exec): the sync function blocks until the program has ended
	//              by itself (EOF on the report pipe: every holder of its write end is gone), then cancels
	//   "race"     cancel the moment the program announces its final attempt (it may or may not win)
	Cancel string
	// CancelOnReady: cancel the run's context as soon as the probe reports "ready" (caller kill)
	CancelOnReady bool
	Deadline      time.Duration
}

// Outcome is what was seen.
type Outcome struct {
	Result    runner.Result
	Report    []Line
	ReportEOF bool
	Setup     string // "" = ok, otherwise why the case could not be set up (never judged)
	ExtSent   bool
	Cancelled bool // the driver cancelled the context (CancelOnReady / Cancel)
	// EndedFirst: kernel truth for Cancel "afterend": the program was a zombie before the cancel
	EndedFirst bool
}

// Env holds what one worker needs: the probe, a scratch dir and (lazily) one container.
type Env struct {
	Probe   string
	Scratch string
	id      int
	probeF  *os.File
	null    *os.File
	cont    container.Environment
	nsRoot  string
	allow   seccomp.Filter
}

var idMu sync.Mutex
var idNext int

// NewEnv prepares a worker environment.
func NewEnv(probe, scratch string) (*Env, error) {
	idMu.Lock()
	idNext++
	id := idNext
	idMu.Unlock()
	e := &Env{Probe: probe, Scratch: scratch, id: id}
	var err error
	if e.probeF, err = os.Open(probe); err != nil {
		return nil, err
	}
	if e.null, err = os.OpenFile("/dev/null", os.O_RDWR, 0); err != nil {
		return nil, err
	}
	e.nsRoot = fmt.Sprintf("%s/nsroot%d", scratch, id)
	if err = os.MkdirAll(e.nsRoot, 0755); err != nil {
		return nil, err
	}
	if err = unix.Dup3(int(e.probeF.Fd()), e.base(), unix.O_CLOEXEC); err != nil {
		return nil, err
	}
	b := libseccomp.Builder{Allow: []string{"read"}, Default: libseccomp.ActionAllow}
	if e.allow, err = b.Build(); err != nil {
		return nil, fmt.Errorf("allow-all filter: %w", err)
	}
	return e, nil
}

func (e *Env) base() int { return 300 + 16*e.id }

// Container returns the worker's container, building it on first use.
func (e *Env) Container() (container.Environment, error) {
	if e.cont != nil {
		return e.cont, nil
	}
	root := fmt.Sprintf("%s/croot%d", e.Scratch, e.id)
	if err := os.MkdirAll(root, 0755); err != nil {
		return nil, err
	}
	mb := mount.NewBuilder().WithTmpfs("w", "size=8m,nr_inodes=4k").WithTmpfs("tmp", "size=8m,nr_inodes=4k")
	b := container.Builder{Root: root, Mounts: mb.Mounts}
	// Build pings the fresh init with a short deadline: on a loaded machine give it several chances
	var err error
	for try := 0; try < 12; try++ {
		var c container.Environment
		if c, err = b.Build(); err == nil {
			e.cont = c
			return c, nil
		}
		time.Sleep(time.Duration(300*(try+1)) * time.Millisecond)
	}
	return nil, err
}

// ResetContainer drops the container (after a runner error it may be unusable).
func (e *Env) ResetContainer() {
	if e.cont != nil {
		e.cont.Destroy()
		e.cont = nil
	}
}

// Close releases everything.
func (e *Env) Close() {
	e.ResetContainer()
	e.probeF.Close()
	e.null.Close()
	unix.Close(e.base())
}

// killFilter: allow everything but syscall nr, which kills (SECCOMP_RET_KILL_THREAD -> SIGSYS).
func killFilter(nr int) seccomp.Filter {
	const (
		ldAbsW = 0x20 // BPF_LD|BPF_W|BPF_ABS
		jeqK   = 0x15 // BPF_JMP|BPF_JEQ|BPF_K
		retK   = 0x06 // BPF_RET|BPF_K
	)
	return seccomp.Filter{
		{Code: ldAbsW, K: 0},
		{Code: jeqK, Jt: 0, Jf: 1, K: uint32(nr)},
		{Code: retK, K: 0x00000000},
		{Code: retK, K: 0x7fff0000},
	}
}

func parseLine(s string) (Line, bool) {
	f := strings.Fields(s)
	if len(f) < 2 {
		return Line{}, false
	}
	l := Line{T: f[0]}
	if v, err := strconv.ParseInt(f[1], 10, 64); err == nil {
		l.V = v
	}
	l.Rest = f[1:]
	return l, true
}

// Run executes one case.
func (e *Env) Run(s Spec) (out Outcome) {
	repR, repW, err := os.Pipe()
	if err != nil {
		out.Setup = "pipe: " + err.Error()
		return
	}
	ctlR, ctlW, err := os.Pipe()
	if err != nil {
		out.Setup = "pipe: " + err.Error()
		return
	}
	data, err := os.OpenFile(fmt.Sprintf("%s/data%d", e.Scratch, e.id), os.O_RDWR|os.O_CREATE|os.O_TRUNC, 0644)
	if err != nil {
		out.Setup = "data: " + err.Error()
		return
	}
	defer func() {
		repR.Close()
		ctlR.Close()
		ctlW.Close()
		data.Close()
	}()

	// The report is read with plain non-blocking reads: everything the main process writes is in
	// the pipe before it ends, so after the runner returned one drain collects all of it, no matter
	// who else still holds a copy of the write end (pre-exec children of other workers do, briefly).
	// Only the "ext" mode needs to see a line while the program runs.
	var (
		mu      sync.Mutex
		raw     bytes.Buffer
		pid     int
		pidSet  = make(chan struct{})
		once    sync.Once
		stop    = make(chan struct{})
		extDone = make(chan struct{})
		extSent bool
	)
	rc, err := repR.SyscallConn()
	if err != nil {
		out.Setup = "report pipe: " + err.Error()
		return
	}
	drain := func() (eof bool) {
		tmp := make([]byte, 4096)
		for {
			var n int
			var rerr error
			rc.Read(func(fd uintptr) bool {
				n, rerr = syscall.Read(int(fd), tmp)
				return true // never wait in the poller
			})
			if rerr == syscall.EINTR {
				continue
			}
			if rerr != nil { // EAGAIN: nothing more for now
				return false
			}
			if n == 0 {
				return true
			}
			mu.Lock()
			raw.Write(tmp[:n])
			mu.Unlock()
		}
	}
	var cancelRun func()
	cancelled := false
	if s.ExtSignal > 0 || s.CancelOnReady || s.Cancel == "race" {
		go func() {
			defer close(extDone)
			for {
				drain()
				mu.Lock()
				ready := bytes.Contains(raw.Bytes(), []byte("ready "))
				mu.Unlock()
				mu.Lock()
				announced := bytes.Contains(raw.Bytes(), []byte("exiting ")) || bytes.Contains(raw.Bytes(), []byte("raising "))
				mu.Unlock()
				if s.Cancel == "race" {
					if announced {
						mu.Lock()
						cancelled = true
						mu.Unlock()
						cancelRun()
						return
					}
					select {
					case <-stop:
						return
					default:
					}
					runtime.Gosched()
					continue
				}
				if ready && s.CancelOnReady {
					mu.Lock()
					cancelled = true
					mu.Unlock()
					cancelRun()
					return
				}
				if ready {
					select {
					case <-pidSet:
						if pid > 1 {
							syscall.Kill(pid, syscall.Signal(s.ExtSignal))
							mu.Lock()
							extSent = true
							mu.Unlock()
						}
					case <-time.After(5 * time.Second):
					case <-stop:
					}
					ctlW.Write([]byte{'x'})
					return
				}
				select {
				case <-stop:
					return
				case <-time.After(time.Millisecond):
				}
			}
		}()
	} else {
		close(extDone)
	}
	var closeOurs func()
	endedFirst := false
	syncFunc := func(p int) error {
		once.Do(func() {
			pid = p
			close(pidSet)
		})
		if s.Cancel == "afterend" {
			// sync after exec: p is the container init (seen from the host); the program is its child.
			// Wait until the program has announced its end and every child of init is a zombie: it has
			// ended by itself (init can not reap it before we return), kernel truth from /proc.
			for t0 := time.Now(); time.Since(t0) < 20*time.Second; time.Sleep(time.Millisecond) {
				drain()
				mu.Lock()
				announced := bytes.Contains(raw.Bytes(), []byte("exiting ")) || bytes.Contains(raw.Bytes(), []byte("raising "))
				mu.Unlock()
				if announced && allChildrenZombies(p) {
					mu.Lock()
					endedFirst = true
					mu.Unlock()
					break
				}
			}
			mu.Lock()
			cancelled = true
			mu.Unlock()
			cancelRun()
		}
		return nil
	}

	// Fixed descriptor layout (exec file below the program's files, nothing adjacent above them):
	// keeps clear of the descriptor-shuffle defects of pkg/forkexec that belong to C06.
	base := e.base()
	for _, f := range []*os.File{repW, ctlR, data} {
		if int(f.Fd()) >= 300 {
			out.Setup = fmt.Sprintf("descriptor %d reaches the fixed slots (leak?)", f.Fd())
			return
		}
	}
	var files []uintptr
	for k, f := range []*os.File{ctlR, e.null, e.null, repW, data} {
		if err := unix.Dup3(int(f.Fd()), base+1+k, unix.O_CLOEXEC); err != nil {
			out.Setup = "dup3: " + err.Error()
			return
		}
		files = append(files, uintptr(base+1+k))
	}
	closeSlots := func() {
		for k := 1; k <= 5; k++ {
			unix.Close(base + k)
		}
	}
	slotsOpen := true
	closeOurs = func() {
		repW.Close()
		if slotsOpen {
			closeSlots()
			slotsOpen = false
		}
	}
	defer func() {
		if slotsOpen {
			closeSlots()
		}
	}()
	env := []string{"LIMITS_CHILD=" + s.Child}
	if s.Core {
		env = append(env, "LIMITS_CORE=1")
	}
	args := append([]string{"/limits"}, s.Args...)
	execFile := uintptr(base)
	if s.BadExec {
		args = []string{"/nonexistent/limits-probe"}
		execFile = 0
	}
	filter := e.allow
	if s.KillNr > 0 {
		filter = killFilter(s.KillNr)
	}
	dl := s.Deadline
	if dl == 0 {
		dl = 180 * time.Second
	}
	ctx, cancel := context.WithTimeout(context.Background(), dl)
	defer cancel()
	cancelRun = cancel
	rlimits, workDir := s.RLimits, ""
	var nsMounts []mount.SyscallParams
	if s.Core {
		// soft limit up to 64 MiB, hard limit left as inherited (no privilege needed)
		inh, err := ParentLimits("self")
		if err != nil {
			out.Setup = "limits: " + err.Error()
			return
		}
		cur := uint64(64 << 20)
		if inh[4][1] < cur {
			cur = inh[4][1]
		}
		rlimits = append(append([]rlimit.RLimit{}, s.RLimits...),
			rlimit.RLimit{Res: syscall.RLIMIT_CORE, Rlim: syscall.Rlimit{Cur: cur, Max: inh[4][1]}})
		switch s.Runner {
		case "ptrace":
			workDir = fmt.Sprintf("%s/cwd%d", e.Scratch, e.id)
			if err := os.MkdirAll(workDir, 0777); err != nil {
				out.Setup = "cwd: " + err.Error()
				return
			}
		case "unshare":
			// the new root is remounted read-only: give the program a writable tmpfs to die in
			mt, err := mount.NewBuilder().WithTmpfs("w", "size=16m,nr_inodes=4k").Build()
			if err != nil {
				out.Setup = "mounts: " + err.Error()
				return
			}
			nsMounts, workDir = mt, "/w"
		}
	}

	switch s.Runner {
	case "ptrace":
		r := &ptrace.Runner{
			Args: args, Env: env, ExecFile: execFile, Files: files,
			RLimits: rlimits, Limit: s.Limit, Seccomp: filter, SyncFunc: syncFunc, WorkDir: workDir,
		}
		out.Result = r.Run(ctx)
	case "unshare":
		r := &unshare.Runner{
			Args: args, Env: env, ExecFile: execFile, Files: files,
			RLimits: rlimits, Limit: s.Limit, Seccomp: filter, SyncFunc: syncFunc,
			Root: e.nsRoot, HostName: "verif", DomainName: "verif", Mounts: nsMounts, WorkDir: workDir,
		}
		out.Result = r.Run(ctx)
	case "cbefore", "cafter":
		c, err := e.Container()
		if err != nil {
			out.Setup = "container: " + err.Error()
			repW.Close()
			return
		}
		p := container.ExecveParam{
			Args: args, Env: env, ExecFile: execFile, Files: files,
			RLimits: rlimits, Seccomp: filter, SyncFunc: syncFunc,
			SyncAfterExec: s.Runner == "cafter",
		}
		out.Result = c.Execve(ctx, p)
		if out.Result.Status == runner.StatusRunnerError {
			// do not let one broken container spoil the following cases
			if c.Ping() != nil {
				e.ResetContainer()
			}
		}
	default:
		out.Setup = "unknown runner " + s.Runner
	}
	mu.Lock()
	out.Cancelled = cancelled
	out.EndedFirst = endedFirst
	mu.Unlock()
	if ctx.Err() != nil && !out.Cancelled {
		out.Setup = "driver deadline hit"
	}
	closeOurs()
	close(stop)
	<-extDone
	out.ReportEOF = drain()
	mu.Lock()
	for _, ln := range strings.Split(raw.String(), "\n") {
		if l, ok := parseLine(ln); ok {
			out.Report = append(out.Report, l)
		}
	}
	out.ExtSent = extSent
	mu.Unlock()
	return
}

// ParentLimits reads the 16 limits of process pid ("self" for the caller) from /proc as decimal strings.
func ParentLimits(pid string) ([16][2]uint64, error) {
	var r [16][2]uint64
	b, err := os.ReadFile("/proc/" + pid + "/limits")
	if err != nil {
		return r, err
	}
	rows := strings.Split(strings.TrimSpace(string(b)), "\n")
	if len(rows) != 17 {
		return r, fmt.Errorf("unexpected /proc/%s/limits: %d rows", pid, len(rows))
	}
	for i, row := range rows[1:] {
		// name is 25 columns wide, then soft, hard, units
		f := strings.Fields(row[25:])
		if len(f) < 2 {
			return r, fmt.Errorf("bad row %q", row)
		}
		for k := 0; k < 2; k++ {
			if f[k] == "unlimited" {
				r[i][k] = ^uint64(0)
			} else if r[i][k], err = strconv.ParseUint(f[k], 10, 64); err != nil {
				return r, fmt.Errorf("bad row %q", row)
			}
		}
	}
	return r, nil
}

// allChildrenZombies: pid has at least one child and all of its children are in state Z.
func allChildrenZombies(pid int) bool {
	tasks, err := os.ReadDir(fmt.Sprintf("/proc/%d/task", pid))
	if err != nil {
		return false
	}
	n := 0
	for _, t := range tasks {
		b, err := os.ReadFile(fmt.Sprintf("/proc/%d/task/%s/children", pid, t.Name()))
		if err != nil {
			return false
		}
		for _, c := range strings.Fields(string(b)) {
			st, err := os.ReadFile("/proc/" + c + "/stat")
			if err != nil {
				continue // reaped meanwhile
			}
			s := string(st)
			f := strings.Fields(s[strings.LastIndexByte(s, ')')+1:])
			if len(f) == 0 || f[0] != "Z" {
				return false
			}
			n++
		}
	}
	return n > 0
}

// CallerIgnored returns the signals this process ignores (SigIgn of /proc/self/status): what a
// program forked from it inherits as ignored through no doing of go-sandbox.
func CallerIgnored() ([]int, error) {
	b, err := os.ReadFile("/proc/self/status")
	if err != nil {
		return nil, err
	}
	for _, ln := range strings.Split(string(b), "\n") {
		if strings.HasPrefix(ln, "SigIgn:") {
			m, err := strconv.ParseUint(strings.TrimSpace(ln[7:]), 16, 64)
			if err != nil {
				return nil, err
			}
			out := []int{}
			for s := 1; s <= 64; s++ {
				if m&(1<<uint(s-1)) != 0 {
					out = append(out, s)
				}
			}
			return out, nil
		}
	}
	return nil, fmt.Errorf("no SigIgn in /proc/self/status")
}

// ContainerInits returns the pids of the container init processes started by this process
// (children whose argv[1] is "container_init").
func ContainerInits() ([]int, error) {
	me := os.Getpid()
	ents, err := os.ReadDir("/proc")
	if err != nil {
		return nil, err
	}
	var out []int
	for _, d := range ents {
		pid, err := strconv.Atoi(d.Name())
		if err != nil {
			continue
		}
		st, err := os.ReadFile("/proc/" + d.Name() + "/stat")
		if err != nil {
			continue
		}
		// pid (comm) state ppid ...
		s := string(st)
		i := strings.LastIndexByte(s, ')')
		f := strings.Fields(s[i+1:])
		if len(f) < 2 {
			continue
		}
		if pp, _ := strconv.Atoi(f[1]); pp != me {
			continue
		}
		cl, err := os.ReadFile("/proc/" + d.Name() + "/cmdline")
		if err != nil {
			continue
		}
		a := strings.Split(string(cl), "\x00")
		if len(a) >= 2 && a[1] == "container_init" {
			out = append(out, pid)
		}
	}
	return out, nil
}
