// Package hx holds the small helpers shared by the verification drivers (one main package per
// property family under harness/cmd).  Drivers contain no oracle: they arrange inputs, run the
// real go-sandbox code and write JSON lines describing what they saw; TLC judges the lines.
package hx

import (
	"encoding/json"
	"fmt"
	"os"
	"sort"
	"sync"
)

// Sub is a sub-command of a driver binary.
type Sub func(args []string) error

var cmds = map[string]Sub{}

// Register adds a sub-command (call from init()).
func Register(name string, f Sub) { cmds[name] = f }

// Main dispatches os.Args[1] to the registered sub-command.
func Main() {
	if len(os.Args) < 2 {
		names := make([]string, 0, len(cmds))
		for k := range cmds {
			names = append(names, k)
		}
		sort.Strings(names)
		fmt.Fprintln(os.Stderr, "usage:", os.Args[0], "<cmd> args...; cmds:", names)
		os.Exit(2)
	}
	f, ok := cmds[os.Args[1]]
	if !ok {
		fmt.Fprintln(os.Stderr, "unknown sub-command", os.Args[1])
		os.Exit(2)
	}
	if err := f(os.Args[2:]); err != nil {
		fmt.Fprintln(os.Stderr, os.Args[0], os.Args[1]+":", err)
		os.Exit(3)
	}
}

// LineWriter writes one JSON value per line; safe for concurrent use.
type LineWriter struct {
	mu sync.Mutex
	f  *os.File
	e  *json.Encoder
}

// NewLineWriter creates (truncates) path.
func NewLineWriter(path string) (*LineWriter, error) {
	f, err := os.Create(path)
	if err != nil {
		return nil, err
	}
	return &LineWriter{f: f, e: json.NewEncoder(f)}, nil
}

// Write appends v as one line.
func (w *LineWriter) Write(v any) {
	w.mu.Lock()
	defer w.mu.Unlock()
	if err := w.e.Encode(v); err != nil {
		panic(err)
	}
}

// Close closes the file.
func (w *LineWriter) Close() error { return w.f.Close() }

// ReadLines decodes a file of JSON values (one per line) into []T.
func ReadLines[T any](path string) ([]T, error) {
	f, err := os.Open(path)
	if err != nil {
		return nil, err
	}
	defer f.Close()
	dec := json.NewDecoder(f)
	var out []T
	for dec.More() {
		var v T
		if err := dec.Decode(&v); err != nil {
			return nil, err
		}
		out = append(out, v)
	}
	return out, nil
}
