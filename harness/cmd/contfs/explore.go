package main

import (
	"fmt"
	"os"
	"strings"
	"time"
)

// explore <probe> <scratch> <cred 0/1> <mounts,comma> <plant mount> <kinds,comma>
func exploreMain(args []string) error {
	probe, scratch := args[0], args[1]
	cfg := envCfg{Mounts: strings.Split(args[3], ","), Cred: args[2] == "1"}
	t0 := time.Now()
	lap := func(what string) { fmt.Println("timing", what, time.Since(t0)); t0 = time.Now() }
	e, err := buildEnv(cfg, probe, scratch)
	lap("build")
	if err != nil {
		return err
	}
	defer e.destroy()
	fmt.Println("init pid", e.pid)
	a := []string{"/probe/contfs", "plant", "r1"}
	for _, k := range strings.Split(args[5], ",") {
		a = append(a, "/"+args[4], k)
	}
	r := e.runProg(a, 0)
	lap("plant")
	fmt.Printf("plant: %+v\n", r)
	for _, m := range cfg.Mounts {
		fmt.Println("host", m, e.hostList(m))
	}
	err = e.Reset()
	lap("reset")
	fmt.Println("reset:", err)
	for _, m := range cfg.Mounts {
		fmt.Println("host", m, e.hostList(m))
	}
	l, r := e.progList(cfg.Mounts)
	lap("proglist")
	fmt.Println("prog", l, r.Status, r.Err)
	e.destroy()
	lap("destroy")
	fmt.Println("ping", e.Ping())
	fmt.Fprintln(os.Stderr, "stderr:", e.stderr.String())
	return nil
}
