package main

// Shared plumbing of the contfs drivers (C13, C14): build a real container environment with a
// given mount table, find its init pid, run the static probe inside it, list directories through
// /proc/<init>/root.  No expectation lives here.

import (
	"context"
	"encoding/hex"
	"fmt"
	"io"
	"os"
	"path/filepath"
	"sort"
	"strconv"
	"strings"
	"sync"
	"sync/atomic"
	"syscall"
	"time"

	"github.com/criyle/go-sandbox/container"
	"github.com/criyle/go-sandbox/pkg/mount"
	"github.com/criyle/go-sandbox/runner"
	"golang.org/x/sys/unix"
)

// envCfg is the part of a generated case that describes the container.
type envCfg struct {
	Mounts []string `json:"mounts"` // tmpfs targets, in configuration order
	Cred   bool     `json:"cred"`   // run programs under a separate uid (CredGenerator)
	DevNul bool     `json:"devnull,omitempty"`
}

type credGen struct{ cur uint32 }

func (c *credGen) Get() syscall.Credential {
	n := atomic.AddUint32(&c.cur, 1)
	return syscall.Credential{Uid: n, Gid: n}
}

var creds = &credGen{cur: 20000 + uint32(os.Getpid()%20000)}

type env struct {
	container.Environment
	pid     int
	stderr  *lockedBuf
	scratch string
	dead    bool
}

type lockedBuf struct {
	mu sync.Mutex
	b  []byte
}

func (l *lockedBuf) Write(p []byte) (int, error) {
	l.mu.Lock()
	defer l.mu.Unlock()
	if len(l.b) < 1<<16 {
		l.b = append(l.b, p...)
	}
	return len(p), nil
}

func (l *lockedBuf) String() string {
	l.mu.Lock()
	defer l.mu.Unlock()
	return string(l.b)
}

var buildMu sync.Mutex

func childPids() map[int]bool {
	out := map[int]bool{}
	tasks, _ := os.ReadDir("/proc/self/task")
	for _, t := range tasks {
		b, err := os.ReadFile("/proc/self/task/" + t.Name() + "/children")
		if err != nil {
			continue
		}
		for _, f := range strings.Fields(string(b)) {
			if p, err := strconv.Atoi(f); err == nil {
				out[p] = true
			}
		}
	}
	return out
}

// buildEnv creates a container whose mount table is: the probe directory (read-only) at /probe,
// proc, optionally /dev/null, and the configured tmpfs mounts in the given order.
func buildEnv(cfg envCfg, probeDir, scratch string) (*env, error) {
	mb := mount.NewBuilder().WithBind(probeDir, "probe", true).WithProc()
	if cfg.DevNul {
		mb = mb.WithBind("/dev/null", "dev/null", false)
	}
	for _, m := range cfg.Mounts {
		mb = mb.WithTmpfs(m, "")
	}
	stderr := &lockedBuf{}
	b := container.Builder{
		Root:    scratch,
		TmpRoot: "root-*",
		Mounts:  mb.Mounts,
		Stderr:  stderr,
		WorkDir: "/" + cfg.Mounts[0],
		// all namespaces of the default set except the network namespace: creating and tearing down
		// network namespaces is serialized kernel-wide and dominates the run time on a busy machine;
		// nothing in C13 / C14 depends on it
		CloneFlags: unix.CLONE_NEWNS | unix.CLONE_NEWPID | unix.CLONE_NEWUSER | unix.CLONE_NEWUTS | unix.CLONE_NEWIPC | unix.CLONE_NEWCGROUP,
	}
	if cfg.Cred {
		b.CredGenerator = creds
	}
	// Build pings the new init with a 3 s deadline; on a heavily loaded machine the start of the
	// init process can take longer, so a failed build is retried (a fresh container every time)
	var (
		e             container.Environment
		err           error
		before, after map[int]bool
	)
	for attempt := 0; attempt < 6; attempt++ {
		buildMu.Lock()
		before = childPids()
		e, err = b.Build()
		after = childPids()
		buildMu.Unlock()
		if err == nil {
			break
		}
		time.Sleep(time.Duration(attempt+1) * 500 * time.Millisecond)
	}
	if err != nil {
		return nil, fmt.Errorf("build: %w (%s)", err, stderr.String())
	}
	pid := 0
	for p := range after {
		if !before[p] {
			if c, _ := os.ReadFile(fmt.Sprintf("/proc/%d/cmdline", p)); strings.Contains(string(c), "container_init") {
				pid = p
			}
		}
	}
	if pid == 0 {
		e.Destroy()
		return nil, fmt.Errorf("cannot find the container init pid")
	}
	return &env{Environment: e, pid: pid, stderr: stderr, scratch: scratch}, nil
}

func (e *env) root(p string) string {
	return fmt.Sprintf("/proc/%d/root/%s", e.pid, strings.TrimPrefix(p, "/"))
}

func (e *env) destroy() {
	if !e.dead {
		e.dead = true
		e.Destroy()
	}
}

type progResult struct {
	Out    string
	Errs   string
	Status string
	Exit   int
	Err    string
}

var tmpSeq atomic.Int64

// runProg runs argv inside the container with stdout/stderr captured in scratch files.  execFile > 0
// runs the program from that descriptor (fexecve); extra descriptors follow stderr (3, 4, ...).
func (e *env) runProg(argv []string, execFile uintptr, extra ...uintptr) progResult {
	n := tmpSeq.Add(1)
	outp := filepath.Join(e.scratch, fmt.Sprintf("out.%d", n))
	errp := filepath.Join(e.scratch, fmt.Sprintf("err.%d", n))
	fout, err := os.Create(outp)
	if err != nil {
		return progResult{Err: err.Error()}
	}
	defer os.Remove(outp)
	defer fout.Close()
	ferr, err := os.Create(errp)
	if err != nil {
		return progResult{Err: err.Error()}
	}
	defer os.Remove(errp)
	defer ferr.Close()
	fin, err := os.Open("/dev/null")
	if err != nil {
		return progResult{Err: err.Error()}
	}
	defer fin.Close()
	ctx, cancel := context.WithTimeout(context.Background(), 60*time.Second)
	defer cancel()
	files := append([]uintptr{fin.Fd(), fout.Fd(), ferr.Fd()}, extra...)
	r := e.Execve(ctx, container.ExecveParam{
		Args:          argv,
		Env:           []string{"PATH=/probe"},
		Files:         files,
		ExecFile:      execFile,
		SyncAfterExec: true,
	})
	ob, _ := os.ReadFile(outp)
	eb, _ := os.ReadFile(errp)
	return progResult{Out: string(ob), Errs: string(eb), Status: statusName(r.Status), Exit: r.ExitStatus, Err: r.Error}
}

func statusName(s runner.Status) string {
	if s == runner.StatusNormal {
		return "Normal"
	}
	return s.String()
}

// listing of one directory: number of entries and up to 24 names (sorted, hex for odd bytes)
type listing struct {
	N     int      `json:"n"`     // entry count, -1: cannot list
	Names []string `json:"names"` // up to 24 names
}

func printable(s string) string {
	for i := 0; i < len(s); i++ {
		if s[i] < 0x20 || s[i] > 0x7e || s[i] == '"' || s[i] == '\\' {
			return "hex:" + hex.EncodeToString([]byte(s))
		}
	}
	return s
}

func capNames(names []string) []string {
	sort.Strings(names)
	if len(names) > 24 {
		names = names[:24]
	}
	out := make([]string, 0, len(names))
	for _, n := range names {
		out = append(out, printable(n))
	}
	return out
}

// hostList lists a container directory from the host through /proc/<init>/root.
func (e *env) hostList(dir string) listing {
	d, err := os.Open(e.root(dir))
	if err != nil {
		return listing{N: -1, Names: []string{}}
	}
	defer d.Close()
	names, err := d.Readdirnames(-1)
	if err != nil {
		return listing{N: -1, Names: []string{}}
	}
	if len(names) > 24 {
		return listing{N: len(names), Names: []string{}}
	}
	return listing{N: len(names), Names: capNames(names)}
}

// progList lists directories by running the probe inside the container.
func (e *env) progList(dirs []string) (map[string]listing, progResult) {
	args := []string{"/probe/contfs", "list"}
	for _, d := range dirs {
		args = append(args, "/"+d)
	}
	r := e.runProg(args, 0)
	out := map[string]listing{}
	for _, line := range strings.Split(r.Out, "\n") {
		f := strings.Fields(line)
		if len(f) < 3 || f[0] != "list" {
			continue
		}
		n, _ := strconv.Atoi(f[2])
		l := listing{N: n, Names: []string{}}
		if n < 0 {
			l.N = -1
		}
		var names []string
		for _, h := range f[3:] {
			b, _ := hex.DecodeString(h)
			names = append(names, string(b))
		}
		if n <= 24 {
			l.Names = capNames(names)
		} else { // the probe reports the first 24 in directory order: not comparable, keep count only
			l.Names = []string{}
		}
		out[strings.TrimPrefix(f[1], "/")] = l
	}
	return out, r
}

var _ io.Writer = (*lockedBuf)(nil)
