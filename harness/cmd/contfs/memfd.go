package main

// C13, second half: memfd.DupToMemfd on real data, then every mutation attempt from the harness
// and from a program executed FROM the memfd inside a container.  Observations only.

import (
	"bytes"
	"context"
	"crypto/sha256"
	"encoding/hex"
	"fmt"
	"io"
	"os"
	"path/filepath"
	"strconv"
	"strings"

	"verifharness/hx"

	"github.com/criyle/go-sandbox/pkg/memfd"
	"golang.org/x/sys/unix"
)

type memCase struct {
	ID     int      `json:"id"`
	Size   int      `json:"size"` // -1: the probe executable
	Pat    string   `json:"pat"`  // zero | ff | ramp | probe
	Reader string   `json:"reader"`
	Ops    []string `json:"ops"`  // host attack order
	Exec   bool     `json:"exec"` // also run the content as a program inside a container
}

type memObs struct {
	Size  int      `json:"size"`
	Sha   string   `json:"sha"`
	Seals []string `json:"seals"`
	Pos   int      `json:"pos"`
}

// memSrc describes the reader handed to DupToMemfd: st_size of the underlying file (-1: none),
// the offset it starts at, and the number of bytes it yields from there.
type memSrc struct {
	Size   int    `json:"size"`
	Pos    int    `json:"pos"`
	Yields int    `json:"yields"`
	Path   string `json:"path,omitempty"`
}

type memSample struct {
	Off int `json:"off"`
	B   int `json:"b"`
}

type progOp struct {
	Target string `json:"target"`
	Op     string `json:"op"`
	Res    string `json:"res"`
}

type memEv struct {
	E       string       `json:"e"`
	Ok      *bool        `json:"ok,omitempty"`
	Err     string       `json:"err,omitempty"`
	SizeIn  *int         `json:"size_in,omitempty"`
	Src     *memSrc      `json:"src,omitempty"`
	ShaIn   string       `json:"sha_in,omitempty"`
	Obs     *memObs      `json:"obs,omitempty"`
	Samples *[]memSample `json:"samples,omitempty"`
	Target  string       `json:"target,omitempty"`
	Op      string       `json:"op,omitempty"`
	Res     string       `json:"res,omitempty"`
	Status  string       `json:"status,omitempty"`
	Ops     *[]progOp    `json:"ops,omitempty"`
}

type memOut struct {
	ID     int     `json:"id"`
	Size   int     `json:"size"`
	Pat    string  `json:"pat"`
	Reader string  `json:"reader"`
	Exec   bool    `json:"exec"`
	Ev     []memEv `json:"ev"`
	Setup  string  `json:"setup,omitempty"`
	Skip   string  `json:"skip,omitempty"` // the machine offers no such source (kernel attribute files)
}

func patByte(pat string, i int) byte {
	switch pat {
	case "zero":
		return 0
	case "ff":
		return 0xff
	default: // ramp
		return byte((i*7 + 3) % 251)
	}
}

func makeData(pat string, n int) []byte {
	b := make([]byte, n)
	if pat == "zero" {
		return b
	}
	for i := range b {
		b[i] = patByte(pat, i)
	}
	return b
}

// shortReader hands out odd-sized chunks and returns the last one together with io.EOF.
type shortReader struct {
	b    []byte
	step int
}

func (s *shortReader) Read(p []byte) (int, error) {
	if len(s.b) == 0 {
		return 0, io.EOF
	}
	s.step = (s.step*31+7)%8191 + 1
	n := s.step
	if n > len(p) {
		n = len(p)
	}
	if n > len(s.b) {
		n = len(s.b)
	}
	copy(p, s.b[:n])
	s.b = s.b[n:]
	if len(s.b) == 0 {
		return n, io.EOF
	}
	return n, nil
}

var sealNames = []struct {
	bit  int
	name string
}{{unix.F_SEAL_SEAL, "SEAL"}, {unix.F_SEAL_SHRINK, "SHRINK"}, {unix.F_SEAL_GROW, "GROW"}, {unix.F_SEAL_WRITE, "WRITE"},
	{unix.F_SEAL_FUTURE_WRITE, "FUTURE_WRITE"}, {0x20, "EXEC"}}

func sealList(v int) []string {
	out := []string{}
	for _, s := range sealNames {
		if v&s.bit != 0 {
			out = append(out, s.name)
			v &^= s.bit
		}
	}
	if v != 0 {
		out = append(out, fmt.Sprintf("0x%x", v))
	}
	return out
}

func observe(f *os.File) (*memObs, error) {
	fd := int(f.Fd())
	var st unix.Stat_t
	if err := unix.Fstat(fd, &st); err != nil {
		return nil, err
	}
	h := sha256.New()
	buf := make([]byte, 1<<20)
	var off int64
	for {
		n, err := unix.Pread(fd, buf, off)
		if n > 0 {
			h.Write(buf[:n])
			off += int64(n)
		}
		if err != nil {
			return nil, err
		}
		if n == 0 {
			break
		}
	}
	seals, err := unix.FcntlInt(uintptr(fd), unix.F_GET_SEALS, 0)
	if err != nil {
		return nil, err
	}
	pos, err := unix.Seek(fd, 0, 1)
	if err != nil {
		return nil, err
	}
	if off != st.Size {
		return nil, fmt.Errorf("read %d bytes of a %d byte file", off, st.Size)
	}
	return &memObs{Size: int(st.Size), Sha: hex.EncodeToString(h.Sum(nil)), Seals: sealList(seals), Pos: int(pos)}, nil
}

func errName(err error) string {
	if err == nil {
		return "OK"
	}
	var en unix.Errno
	if e, ok := err.(unix.Errno); ok {
		en = e
	} else if pe, ok := err.(*os.PathError); ok {
		if e, ok := pe.Err.(unix.Errno); ok {
			en = e
		}
	}
	switch en {
	case unix.EPERM:
		return "EPERM"
	case unix.EACCES:
		return "EACCES"
	case unix.ETXTBSY:
		return "ETXTBSY"
	case unix.EBADF:
		return "EBADF"
	case unix.EINVAL:
		return "EINVAL"
	case unix.EBUSY:
		return "EBUSY"
	case unix.EFBIG:
		return "EFBIG"
	case unix.EOPNOTSUPP:
		return "EOPNOTSUPP"
	}
	if en != 0 {
		return fmt.Sprintf("E%d", int(en))
	}
	return "ERR"
}

// hostOp performs one mutation attempt on the descriptor returned by DupToMemfd (target "fd") or on
// /proc/self/fd/N (target "fdpath"); same names as the probe's memfd mode.
func hostOp(f *os.File, op string) (target, res string) {
	fd := int(f.Fd())
	var st unix.Stat_t
	unix.Fstat(fd, &st)
	size := st.Size
	path := fmt.Sprintf("/proc/self/fd/%d", fd)
	one := []byte{'X'}
	werr := func(n int, err error) error {
		if err == nil && n != 1 {
			return unix.EIO
		}
		return err
	}
	switch op {
	case "write":
		return "fd", errName(werr(unix.Write(fd, one)))
	case "pwrite0":
		return "fd", errName(werr(unix.Pwrite(fd, one, 0)))
	case "pwriteend":
		return "fd", errName(werr(unix.Pwrite(fd, one, size)))
	case "shrink":
		if size == 0 {
			return "fd", "EINVAL"
		}
		return "fd", errName(unix.Ftruncate(fd, size/2))
	case "grow":
		return "fd", errName(unix.Ftruncate(fd, size+4096))
	case "fallocgrow":
		return "fd", errName(unix.Fallocate(fd, 0, size, 4096))
	case "punch":
		return "fd", errName(unix.Fallocate(fd, unix.FALLOC_FL_PUNCH_HOLE|unix.FALLOC_FL_KEEP_SIZE, 0, 4096))
	case "addseals0":
		_, err := unix.FcntlInt(uintptr(fd), unix.F_ADD_SEALS, 0)
		return "fd", errName(err)
	case "addfuture":
		_, err := unix.FcntlInt(uintptr(fd), unix.F_ADD_SEALS, unix.F_SEAL_FUTURE_WRITE)
		return "fd", errName(err)
	case "mmapw":
		m, err := unix.Mmap(fd, 0, 4096, unix.PROT_READ|unix.PROT_WRITE, unix.MAP_SHARED)
		if err == nil {
			if size > 0 {
				m[0] = 'Y'
			}
			unix.Munmap(m)
		}
		return "fd", errName(err)
	case "mprotectw":
		m, err := unix.Mmap(fd, 0, 4096, unix.PROT_READ, unix.MAP_SHARED)
		if err != nil {
			return "fd", errName(err)
		}
		err = unix.Mprotect(m, unix.PROT_READ|unix.PROT_WRITE)
		if err == nil && size > 0 {
			m[0] = 'Z'
		}
		unix.Munmap(m)
		return "fd", errName(err)
	case "openrdwr":
		g, err := unix.Open(path, unix.O_RDWR|unix.O_CLOEXEC, 0)
		if err == nil {
			unix.Close(g)
		}
		return "fdpath", errName(err)
	case "reopen-pwrite", "reopen-shrink", "reopen-grow":
		g, err := unix.Open(path, unix.O_RDWR|unix.O_CLOEXEC, 0)
		if err != nil {
			return "fdpath", "NOFD"
		}
		defer unix.Close(g)
		switch op {
		case "reopen-pwrite":
			return "fdpath", errName(werr(unix.Pwrite(g, one, 0)))
		case "reopen-shrink":
			if size == 0 {
				return "fdpath", "EINVAL"
			}
			return "fdpath", errName(unix.Ftruncate(g, size/2))
		default:
			return "fdpath", errName(unix.Ftruncate(g, size+1))
		}
	case "opentrunc":
		g, err := unix.Open(path, unix.O_WRONLY|unix.O_TRUNC|unix.O_CLOEXEC, 0)
		if err == nil {
			unix.Close(g)
		}
		return "fdpath", errName(err)
	case "openappend":
		g, err := unix.Open(path, unix.O_WRONLY|unix.O_APPEND|unix.O_CLOEXEC, 0)
		if err == nil {
			unix.Close(g)
		}
		return "fdpath", errName(err)
	case "append-write":
		g, err := unix.Open(path, unix.O_WRONLY|unix.O_APPEND|unix.O_CLOEXEC, 0)
		if err != nil {
			return "fdpath", "NOFD"
		}
		defer unix.Close(g)
		return "fdpath", errName(werr(unix.Write(g, one)))
	case "truncate0":
		if size == 0 {
			return "fdpath", "EINVAL"
		}
		return "fdpath", errName(unix.Truncate(path, 0))
	case "truncategrow":
		return "fdpath", errName(unix.Truncate(path, size+4096))
	}
	return "fd", "UNKNOWN-OP"
}

func runMemCase(c memCase, probeDir, scratch string) memOut {
	out := memOut{ID: c.ID, Size: c.Size, Pat: c.Pat, Reader: c.Reader, Exec: c.Exec, Ev: []memEv{}}
	var data []byte
	src := memSrc{Size: -1}
	switch c.Pat {
	case "probe":
		b, err := os.ReadFile(filepath.Join(probeDir, "contfs"))
		if err != nil {
			out.Setup = err.Error()
			return out
		}
		data = b
	case "kernel":
		// a kernel attribute file whose st_size is not what it yields; the expected bytes are
		// read through an independent descriptor (stable files only: two reads must agree)
		cands := []string{"/sys/devices/system/cpu/possible", "/sys/devices/system/cpu/online", "/sys/kernel/mm/transparent_hugepage/enabled", "/sys/kernel/osrelease"}
		if c.Reader == "procattr" {
			cands = []string{"/proc/version", "/proc/sys/kernel/ostype", "/proc/filesystems"}
		}
		for _, p := range cands {
			b1, err1 := os.ReadFile(p)
			b2, err2 := os.ReadFile(p)
			fi, err3 := os.Stat(p)
			if err1 != nil || err2 != nil || err3 != nil || !fi.Mode().IsRegular() || !bytes.Equal(b1, b2) || len(b1) == 0 {
				continue
			}
			if (c.Reader == "sysattr" && int(fi.Size()) > len(b1)) || (c.Reader == "procattr" && int(fi.Size()) < len(b1)) {
				data, src.Path, src.Size = b1, p, int(fi.Size())
				break
			}
		}
		if src.Path == "" {
			out.Skip = "no " + c.Reader + " file with a differing st_size on this machine"
			return out
		}
	default:
		data = makeData(c.Pat, c.Size)
	}
	src.Yields = len(data)
	sum := sha256.Sum256(data)
	header := bytes.Repeat([]byte{0xAA}, 1000+c.ID%3000)
	trailer := bytes.Repeat([]byte{0x55}, 517+c.ID%5000)
	mkfile := func(parts ...[]byte) (*os.File, error) {
		p := filepath.Join(scratch, fmt.Sprintf("memsrc.%d", c.ID))
		if err := os.WriteFile(p, bytes.Join(parts, nil), 0600); err != nil {
			return nil, err
		}
		f, err := os.Open(p)
		os.Remove(p)
		if err == nil {
			if fi, e2 := f.Stat(); e2 == nil {
				src.Size = int(fi.Size())
			}
		}
		return f, err
	}
	var rd io.Reader
	switch c.Reader {
	case "bytes":
		rd = bytes.NewReader(data)
	case "short":
		rd = &shortReader{b: data}
	case "sysattr", "procattr":
		f, err := os.Open(src.Path)
		if err != nil {
			out.Setup = err.Error()
			return out
		}
		defer f.Close()
		rd = f
	case "file", "fileoff", "limited", "section":
		var f *os.File
		var err error
		switch c.Reader {
		case "file":
			f, err = mkfile(data)
		case "fileoff":
			f, err = mkfile(header, data)
		case "limited":
			f, err = mkfile(data, trailer)
		default:
			f, err = mkfile(header, data, trailer)
		}
		if err != nil {
			out.Setup = err.Error()
			return out
		}
		defer f.Close()
		switch c.Reader {
		case "file":
			rd = f
		case "fileoff": // the caller consumed a header; the executable is the rest of the file
			if _, err := io.ReadFull(f, make([]byte, len(header))); err != nil {
				out.Setup = err.Error()
				return out
			}
			src.Pos = len(header)
			rd = f
		case "limited":
			rd = io.LimitReader(f, int64(len(data)))
		default:
			src.Pos = len(header)
			rd = io.NewSectionReader(f, int64(len(header)), int64(len(data)))
		}
	case "pipe":
		r, w, err := os.Pipe()
		if err != nil {
			out.Setup = err.Error()
			return out
		}
		defer r.Close()
		go func() {
			b := data
			for len(b) > 0 {
				n := 65537
				if n > len(b) {
					n = len(b)
				}
				if _, err := w.Write(b[:n]); err != nil {
					break
				}
				b = b[n:]
			}
			w.Close()
		}()
		rd = r
	default:
		out.Setup = "unknown reader " + c.Reader
		return out
	}
	f, err := memfd.DupToMemfd("verif_c13", rd)
	ok := err == nil
	n := len(data)
	ev := memEv{E: "dup", Ok: &ok, SizeIn: &n, Src: &src, ShaIn: hex.EncodeToString(sum[:])}
	if err != nil {
		ev.Err = err.Error()
		out.Ev = append(out.Ev, ev)
		return out
	}
	defer f.Close()
	out.Ev = append(out.Ev, ev)

	obs, err := observe(f)
	if err != nil {
		out.Setup = "observe: " + err.Error()
		return out
	}
	samples := []memSample{}
	h := memEv{E: "handover", Obs: obs, Samples: &samples}
	if c.Pat != "probe" && c.Pat != "kernel" {
		one := make([]byte, 1)
		seen := map[int]bool{}
		for _, off := range []int{0, 1, 4095, 4096, 4097, obs.Size / 2, obs.Size - 2, obs.Size - 1} {
			if off < 0 || off >= obs.Size || seen[off] {
				continue
			}
			seen[off] = true
			if k, _ := unix.Pread(int(f.Fd()), one, int64(off)); k == 1 {
				samples = append(samples, memSample{Off: off, B: int(one[0])})
			}
		}
	}
	out.Ev = append(out.Ev, h)

	if c.Exec {
		e, err := buildEnv(envCfg{Mounts: []string{"w", "tmp"}, Cred: c.ID%2 == 0}, probeDir, scratch)
		if err != nil {
			out.Setup = err.Error()
			return out
		}
		r := e.runProg([]string{"/probe/contfs", "memfd", "3"}, f.Fd(), f.Fd())
		e.destroy()
		pops := []progOp{}
		x := memEv{E: "exec", Status: r.Status, Err: clip(r.Err+r.Errs, 300), Ops: &pops}
		for _, line := range strings.Split(r.Out, "\n") {
			fl := strings.Fields(line)
			if len(fl) == 4 && fl[0] == "mut" {
				pops = append(pops, progOp{Target: fl[1], Op: fl[2], Res: fl[3]})
			}
		}
		if x.Obs, err = observe(f); err != nil {
			out.Setup = "observe: " + err.Error()
			return out
		}
		out.Ev = append(out.Ev, x)
	}
	for _, op := range c.Ops {
		t, res := hostOp(f, op)
		o, err := observe(f)
		if err != nil {
			out.Setup = "observe: " + err.Error()
			return out
		}
		out.Ev = append(out.Ev, memEv{E: "op", Target: t, Op: op, Res: res, Obs: o})
	}
	return out
}

// memfd <cases.ndjson> <out.ndjson> <probe dir> <scratch>
func memfdMain(args []string) error {
	if len(args) < 4 {
		return fmt.Errorf("usage: memfd cases out probedir scratch")
	}
	cs, err := hx.ReadLines[memCase](args[0])
	if err != nil {
		return err
	}
	w, err := hx.NewLineWriter(args[1])
	if err != nil {
		return err
	}
	defer w.Close()
	for _, c := range cs {
		w.Write(runMemCase(c, args[2], args[3]))
	}
	return nil
}

var _ = context.Background
var _ = strconv.Itoa
