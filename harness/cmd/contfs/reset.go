package main

// C13, first half: replay TLC-composed histories (run / reset / list) on a real container and
// record what the host (through /proc/<init>/root) and a later program see.

import (
	"fmt"
	"strconv"
	"strings"
	"sync"
	"syscall"

	"verifharness/hx"
)

type plantSpec struct {
	K string `json:"k"`
	M int    `json:"m"` // 1-based index into cfg.mounts
}

type histCfg struct {
	Name   string   `json:"name"`
	Cred   bool     `json:"cred"`
	Mounts []string `json:"mounts"`
}

type histEvIn struct {
	E      string      `json:"e"` // run | reset | list
	Plants []plantSpec `json:"plants,omitempty"`
}

type histIn struct {
	ID  int        `json:"id"`
	Cfg histCfg    `json:"cfg"`
	Ev  []histEvIn `json:"ev"`
}

type plantedObs struct {
	K     string `json:"k"`
	Top   int    `json:"top"`
	Errno int    `json:"errno"`
}

type histEvOut struct {
	E       string       `json:"e"`
	Tag     string       `json:"tag,omitempty"`
	Plants  []plantSpec  `json:"plants,omitempty"`
	Status  string       `json:"status,omitempty"`
	Planted []plantedObs `json:"planted,omitempty"`
	Ok      *bool        `json:"ok,omitempty"`
	Err     string       `json:"err,omitempty"`
	By      string       `json:"by,omitempty"`
	Ls      []listing    `json:"ls,omitempty"`
}

type histOut struct {
	ID     int         `json:"id"`
	Cfg    string      `json:"cfg"`
	Nofile int         `json:"nofile"`
	Reused bool        `json:"reused"` // the container had served an earlier history (and was seen empty)
	Ev     []histEvOut `json:"ev"`
	Setup  string      `json:"setup,omitempty"` // non-empty: the driver could not run the history
}

func clip(s string, n int) string {
	if len(s) > n {
		return s[:n] + "..."
	}
	return s
}

// A worker keeps one container per configuration and reuses it for its next history of that
// configuration, like a pool does -- but only if the last thing the host saw in it was that every
// mount holds nothing except the mount points of the configuration; otherwise (and after any
// trouble) the container is destroyed and the next history gets a fresh one.
type resetWorker struct {
	probeDir, scratch string
	envs              map[string]*env
}

func (w *resetWorker) close() {
	for _, e := range w.envs {
		e.destroy()
	}
}

func onlyMountPoints(mounts []string, ls []listing) bool {
	base := map[string]bool{}
	for _, m := range mounts {
		base[m[strings.LastIndex(m, "/")+1:]] = true
	}
	for _, l := range ls {
		if l.N < 0 || l.N > len(l.Names) {
			return false
		}
		for _, n := range l.Names {
			if !base[n] {
				return false
			}
		}
	}
	return true
}

func (w *resetWorker) runHistory(h histIn) histOut {
	probeDir, scratch := w.probeDir, w.scratch
	out := histOut{ID: h.ID, Cfg: h.Cfg.Name, Ev: []histEvOut{}}
	var rl syscall.Rlimit
	if err := syscall.Getrlimit(syscall.RLIMIT_NOFILE, &rl); err == nil && rl.Max < 1<<30 {
		out.Nofile = int(rl.Max) // the container init (a Go program) raises its soft limit to this
	} else {
		out.Nofile = 1 << 30
	}
	if w.envs == nil {
		w.envs = map[string]*env{}
	}
	e := w.envs[h.Cfg.Name]
	delete(w.envs, h.Cfg.Name)
	out.Reused = e != nil
	if e == nil {
		var err error
		e, err = buildEnv(envCfg{Mounts: h.Cfg.Mounts, Cred: h.Cfg.Cred}, probeDir, scratch)
		if err != nil {
			out.Setup = err.Error()
			return out
		}
	}
	clean := false
	defer func() {
		if clean && out.Setup == "" && !e.dead {
			w.envs[h.Cfg.Name] = e
		} else {
			e.destroy()
		}
	}()
	nrun := 0
	for _, ev := range h.Ev {
		switch ev.E {
		case "run":
			clean = false
			nrun++
			tag := "r" + strconv.Itoa(nrun)
			args := []string{"/probe/contfs", "plant", tag}
			for _, p := range ev.Plants {
				args = append(args, "/"+h.Cfg.Mounts[p.M-1], p.K)
			}
			r := e.runProg(args, 0)
			o := histEvOut{E: "run", Tag: tag, Plants: ev.Plants, Status: r.Status, Err: clip(r.Err+r.Errs, 300), Planted: []plantedObs{}}
			for _, line := range strings.Split(r.Out, "\n") {
				f := strings.Fields(line)
				if len(f) == 5 && f[0] == "planted" {
					top, _ := strconv.Atoi(f[3])
					en, _ := strconv.Atoi(f[4])
					o.Planted = append(o.Planted, plantedObs{K: f[2], Top: top, Errno: en})
				}
			}
			out.Ev = append(out.Ev, o)
		case "reset":
			err := e.Reset()
			ok := err == nil
			o := histEvOut{E: "reset", Ok: &ok}
			if err != nil {
				o.Err = clip(err.Error(), 300)
			}
			out.Ev = append(out.Ev, o)
		case "list":
			ho := histEvOut{E: "list", By: "host", Ls: []listing{}}
			for _, m := range h.Cfg.Mounts {
				ho.Ls = append(ho.Ls, e.hostList(m))
			}
			out.Ev = append(out.Ev, ho)
			clean = onlyMountPoints(h.Cfg.Mounts, ho.Ls)
			pl, r := e.progList(h.Cfg.Mounts)
			po := histEvOut{E: "list", By: "prog", Status: r.Status, Err: clip(r.Err+r.Errs, 300), Ls: []listing{}}
			for _, m := range h.Cfg.Mounts {
				l, ok := pl[m]
				if !ok {
					l = listing{N: -1, Names: []string{}}
				}
				po.Ls = append(po.Ls, l)
			}
			out.Ev = append(out.Ev, po)
		}
	}
	if s := e.stderr.String(); strings.Contains(s, "container_exit") {
		out.Setup = "container init exited: " + clip(s, 300)
	}
	return out
}

// reset <histories.ndjson> <out.ndjson> <probe dir> <scratch> <workers>
func resetMain(args []string) error {
	if len(args) < 5 {
		return fmt.Errorf("usage: reset hist out probedir scratch workers")
	}
	hs, err := hx.ReadLines[histIn](args[0])
	if err != nil {
		return err
	}
	w, err := hx.NewLineWriter(args[1])
	if err != nil {
		return err
	}
	defer w.Close()
	nw, _ := strconv.Atoi(args[4])
	if nw < 1 {
		nw = 1
	}
	res := make([]histOut, len(hs))
	ch := make(chan int)
	var wg sync.WaitGroup
	for k := 0; k < nw; k++ {
		wg.Add(1)
		go func() {
			defer wg.Done()
			w := &resetWorker{probeDir: args[2], scratch: args[3]}
			for i := range ch {
				res[i] = w.runHistory(hs[i])
			}
			w.close()
		}()
	}
	for i := range hs {
		ch <- i
	}
	close(ch)
	wg.Wait()
	for _, r := range res {
		w.Write(r)
	}
	return nil
}
