package main

// C13, first half: replay TLC-composed histories (run / reset / list) on a real container and
// record what the host (through /proc/<init>/root) and a later program see.

import (
	"fmt"
	"strconv"
	"strings"
	"sync"
	"syscall"

	"verifharness/hx"
)

type plantSpec struct {
	K string `json:"k"`
	M int    `json:"m"` // 1-based index into cfg.mounts
}

type histCfg struct {
	Name   string   `json:"name"`
	Cred   bool     `json:"cred"`
	Mounts []string `json:"mounts"`
}

type histEvIn struct {
	E      string      `json:"e"` // run | reset | list
	Plants []plantSpec `json:"plants,omitempty"`
}

type histIn struct {
	ID  int        `json:"id"`
	Cfg histCfg    `json:"cfg"`
	Ev  []histEvIn `json:"ev"`
}

type plantedObs struct {
	K     string `json:"k"`
	Top   int    `json:"top"`
	Errno int    `json:"errno"`
}

type histEvOut struct {
	E       string       `json:"e"`
	Tag     string       `json:"tag,omitempty"`
	Plants  []plantSpec  `json:"plants,omitempty"`
	Status  string       `json:"status,omitempty"`
	Planted []plantedObs `json:"planted,omitempty"`
	Ok      *bool        `json:"ok,omitempty"`
	Err     string       `json:"err,omitempty"`
	By      string       `json:"by,omitempty"`
	Ls      []listing    `json:"ls,omitempty"`
}

type histOut struct {
	ID     int         `json:"id"`
	Cfg    string      `json:"cfg"`
	Nofile int         `json:"nofile"`
	Ev     []histEvOut `json:"ev"`
	Setup  string      `json:"setup,omitempty"` // non-empty: the driver could not run the history
}

func clip(s string, n int) string {
	if len(s) > n {
		return s[:n] + "..."
	}
	return s
}

func runHistory(h histIn, probeDir, scratch string) histOut {
	out := histOut{ID: h.ID, Cfg: h.Cfg.Name, Ev: []histEvOut{}}
	var rl syscall.Rlimit
	if err := syscall.Getrlimit(syscall.RLIMIT_NOFILE, &rl); err == nil && rl.Max < 1<<30 {
		out.Nofile = int(rl.Max) // the container init (a Go program) raises its soft limit to this
	} else {
		out.Nofile = 1 << 30
	}
	e, err := buildEnv(envCfg{Mounts: h.Cfg.Mounts, Cred: h.Cfg.Cred}, probeDir, scratch)
	if err != nil {
		out.Setup = err.Error()
		return out
	}
	defer e.destroy()
	nrun := 0
	for _, ev := range h.Ev {
		switch ev.E {
		case "run":
			nrun++
			tag := "r" + strconv.Itoa(nrun)
			args := []string{"/probe/contfs", "plant", tag}
			for _, p := range ev.Plants {
				args = append(args, "/"+h.Cfg.Mounts[p.M-1], p.K)
			}
			r := e.runProg(args, 0)
			o := histEvOut{E: "run", Tag: tag, Plants: ev.Plants, Status: r.Status, Err: clip(r.Err+r.Errs, 300), Planted: []plantedObs{}}
			for _, line := range strings.Split(r.Out, "\n") {
				f := strings.Fields(line)
				if len(f) == 5 && f[0] == "planted" {
					top, _ := strconv.Atoi(f[3])
					en, _ := strconv.Atoi(f[4])
					o.Planted = append(o.Planted, plantedObs{K: f[2], Top: top, Errno: en})
				}
			}
			out.Ev = append(out.Ev, o)
		case "reset":
			err := e.Reset()
			ok := err == nil
			o := histEvOut{E: "reset", Ok: &ok}
			if err != nil {
				o.Err = clip(err.Error(), 300)
			}
			out.Ev = append(out.Ev, o)
		case "list":
			ho := histEvOut{E: "list", By: "host", Ls: []listing{}}
			for _, m := range h.Cfg.Mounts {
				ho.Ls = append(ho.Ls, e.hostList(m))
			}
			out.Ev = append(out.Ev, ho)
			pl, r := e.progList(h.Cfg.Mounts)
			po := histEvOut{E: "list", By: "prog", Status: r.Status, Err: clip(r.Err+r.Errs, 300), Ls: []listing{}}
			for _, m := range h.Cfg.Mounts {
				l, ok := pl[m]
				if !ok {
					l = listing{N: -1, Names: []string{}}
				}
				po.Ls = append(po.Ls, l)
			}
			out.Ev = append(out.Ev, po)
		}
	}
	if s := e.stderr.String(); strings.Contains(s, "container_exit") {
		out.Setup = "container init exited: " + clip(s, 300)
	}
	return out
}

// reset <histories.ndjson> <out.ndjson> <probe dir> <scratch> <workers>
func resetMain(args []string) error {
	if len(args) < 5 {
		return fmt.Errorf("usage: reset hist out probedir scratch workers")
	}
	hs, err := hx.ReadLines[histIn](args[0])
	if err != nil {
		return err
	}
	w, err := hx.NewLineWriter(args[1])
	if err != nil {
		return err
	}
	defer w.Close()
	nw, _ := strconv.Atoi(args[4])
	if nw < 1 {
		nw = 1
	}
	res := make([]histOut, len(hs))
	ch := make(chan int)
	var wg sync.WaitGroup
	for k := 0; k < nw; k++ {
		wg.Add(1)
		go func() {
			defer wg.Done()
			for i := range ch {
				res[i] = runHistory(hs[i], args[2], args[3])
			}
		}()
	}
	for i := range hs {
		ch <- i
	}
	close(ch)
	wg.Wait()
	for _, r := range res {
		w.Write(r)
	}
	return nil
}
