package main

// C14: host file operations (Open / Symlink / Delete) against file-system states planted by a
// program inside the container.  The driver plants, calls the real API, and records what came back
// (descriptor identity, access mode, close-on-exec, elapsed time, file-system state before/after).

import (
	"fmt"
	"os"
	"strconv"
	"strings"
	"sync"
	"syscall"
	"time"

	"verifharness/hx"

	"github.com/criyle/go-sandbox/container"
	"golang.org/x/sys/unix"
)

var foPath = map[string]string{
	"a": "/w/a", "b": "/w/b", "c": "/w/sub/c", "sub": "/w/sub", "dev": "/dev/null",
	"ld": "/w/l/d/f", "td": "/w/t/d/g", // interacting directory chains: /w/l may be a (relative) link to /w/t
	"target": "/w/target", "tdir": "/w/tdir", "nowhere": "/w/nowhere", "probe": "/probe/contfs",
	"long": "/w/" + strings.Repeat("L", 250) + strings.Repeat("/"+strings.Repeat("M", 250), 11), // 3 KB, does not exist
}

type foItem struct {
	P    string `json:"p"`
	Idx  int    `json:"idx"`            // p = "n": the idx-th numbered file /w/n/<idx>-nnn...
	Len  int    `json:"len,omitempty"`  // p = "L": 1 | 2 | 3 = prefix of 4 | 8 | 15 long components
	What string `json:"what,omitempty"` // p = "L": "dir" (the prefix itself) | "miss" (<prefix>/miss-<idx>)
	Mode string `json:"mode"`           // name of a flag combination, see openFlag
	Perm int    `json:"perm"`           // permission bits for a file the request creates
	Mk   bool   `json:"mk"`
}

type foLink struct {
	Link string `json:"link"`
	To   string `json:"to"`
	Idx  int    `json:"idx"`
	Len  int    `json:"len"`
	What string `json:"what"`
}

type foOp struct {
	Op    string   `json:"op"` // open | symlink | delete
	Items []foItem `json:"items,omitempty"`
	Links []foLink `json:"links,omitempty"`
	P     string   `json:"p,omitempty"`
	Many  int      `json:"many,omitempty"` // open: repeat items[0] this many times
}

type foFS struct {
	A   string `json:"a"`
	B   string `json:"b"`
	Sub string `json:"sub"`
	C   string `json:"c"`
	N   int    `json:"n"`  // numbered regular files 1..n in /w/n
	Ld  int    `json:"ld"` // 1: the chain of fifteen 250-byte directories is planted below /w
	Tl  string `json:"tl"` // /w/l: absent | dir | file | link (-> /w/t)
	Tt  string `json:"tt"` // /w/t: absent | dir
}

type foCase struct {
	ID   int    `json:"id"`
	Cred bool   `json:"cred"`
	FS   foFS   `json:"fs"`
	Ops  []foOp `json:"ops"`
}

type foObs map[string]string

type foRes struct {
	Fd      bool     `json:"fd"`
	Err     string   `json:"err"`
	Ident   string   `json:"ident"`   // dev:ino of the returned descriptor
	Pident  string   `json:"pident"`  // dev:ino of lstat(path) after the call
	Kind    string   `json:"kind"`    // file type of the returned descriptor
	Acc     string   `json:"acc"`     // r | w | rw from F_GETFL
	Cloexec bool     `json:"cloexec"` // FD_CLOEXEC
	St      []string `json:"st"`      // status flags of the descriptor (F_GETFL): APPEND SYNC NONBLOCK DIRECT
	Pmode   int      `json:"pmode"`   // permission bits of the path after the call
	Osize   int      `json:"osize"`   // size of the file when Open returned
	Wrote   bool     `json:"wrote"`   // the driver wrote its 3-byte token through the descriptor
	Wsize   int      `json:"wsize"`   // size of the file after that write
	Worig   bool     `json:"worig"`   // the file still starts with the 8 planted bytes after that write
}

type foEv struct {
	E       string   `json:"e"`
	Obs     foObs    `json:"obs,omitempty"`
	Items   []foItem `json:"items"`
	Links   []foLink `json:"links"`
	P       string   `json:"p,omitempty"`
	Err     string   `json:"err"`
	Res     []foRes  `json:"res"`
	Errs    []string `json:"errs"`
	Ms      int      `json:"ms"`
	Blocked bool     `json:"blocked"`
	Ok      bool     `json:"ok"`
	Post    foObs    `json:"post,omitempty"`
	NObs    int      `json:"nobs"`  // entries of /w/n (state event)
	NPost   int      `json:"npost"` // entries of /w/n after the operation
	LObs    int      `json:"lobs"`  // miss-* entries in the long chain (state event)
	LPost   int      `json:"lpost"` // ... after the operation
}

type foOut struct {
	ID    int    `json:"id"`
	Cred  bool   `json:"cred"`
	FS    foFS   `json:"fs"`
	Ev    []foEv `json:"ev"`
	Setup string `json:"setup,omitempty"`
}

var longComps = map[int]int{1: 4, 2: 8, 3: 15}

// longPath renders a long legal path: a prefix of the planted chain or a missing entry in it
func longPath(n int, what string, idx int) string {
	p := "/w" + strings.Repeat("/"+strings.Repeat("L", 250), longComps[n])
	if what == "miss" {
		p += fmt.Sprintf("/miss-%04d", idx)
	}
	return p
}

func (e *env) countLong() int {
	n := 0
	for k := range longComps {
		d, err := os.Open(e.root(longPath(k, "dir", 0)))
		if err != nil {
			continue
		}
		names, _ := d.Readdirnames(-1)
		d.Close()
		for _, x := range names {
			if strings.HasPrefix(x, "miss-") {
				n++
			}
		}
	}
	return n
}

// itemPath renders the path of an Open item; numbered files have long distinct names
func itemPath(it foItem) string {
	if it.P == "L" {
		return longPath(it.Len, it.What, it.Idx)
	}
	if it.P == "n" {
		return fmt.Sprintf("/w/n/%04d-%s", it.Idx, strings.Repeat("n", 85))
	}
	return foPath[it.P]
}

func (e *env) countNumbered() int {
	d, err := os.Open(e.root("/w/n"))
	if err != nil {
		return 0
	}
	defer d.Close()
	names, _ := d.Readdirnames(-1)
	return len(names)
}

func plantOp(path, kind string) []string {
	switch kind {
	case "absent", "":
		return nil
	case "regular":
		return []string{"reg:" + path}
	case "unreadable":
		return []string{"unr:" + path}
	case "dir":
		return []string{"dir:" + path}
	case "symreg":
		return []string{"sym:" + path + ":/w/target"}
	case "symdir":
		return []string{"sym:" + path + ":/w/tdir"}
	case "symout":
		return []string{"sym:" + path + ":/probe/contfs"}
	case "symdev":
		return []string{"sym:" + path + ":/dev/null"}
	case "dangling":
		return []string{"sym:" + path + ":/w/nowhere"}
	case "fifo":
		return []string{"fifo:" + path}
	case "sock":
		return []string{"sock:" + path}
	}
	return []string{"bad:" + path}
}

func (e *env) kindOf(p string) string {
	var st unix.Stat_t
	hp := e.root(p)
	if err := unix.Lstat(hp, &st); err != nil {
		if err == unix.ENOENT || err == unix.ENOTDIR {
			return "absent"
		}
		return "error:" + err.Error()
	}
	switch st.Mode & unix.S_IFMT {
	case unix.S_IFREG:
		if st.Mode&0777 == 0 {
			return "unreadable"
		}
		return "regular"
	case unix.S_IFDIR:
		return "dir"
	case unix.S_IFIFO:
		return "fifo"
	case unix.S_IFSOCK:
		return "sock"
	case unix.S_IFCHR, unix.S_IFBLK:
		return "device"
	case unix.S_IFLNK:
		t, _ := os.Readlink(hp)
		switch t {
		case "/w/target":
			return "symreg"
		case "/w/tdir":
			return "symdir"
		case "/probe/contfs":
			return "symout"
		case "/dev/null":
			return "symdev"
		case "t":
			return "symt"
		case "/w/nowhere":
			return "dangling"
		}
		return "symlink:" + t
	}
	return "other"
}

func (e *env) observeFS() foObs {
	o := foObs{}
	for _, k := range []string{"a", "b", "sub", "c", "target", "tdir", "nowhere", "dev"} {
		o[k] = e.kindOf(foPath[k])
	}
	o["ldeep"] = e.kindOf(longPath(3, "dir", 0))
	for k, p := range map[string]string{"tl": "/w/l", "tt": "/w/t", "tld": "/w/l/d", "ttd": "/w/t/d",
		"tlf": "/w/l/d/f", "ttf": "/w/t/d/f", "ttg": "/w/t/d/g"} {
		o[k] = e.kindOf(p)
	}
	return o
}

func ident(st *unix.Stat_t) string { return fmt.Sprintf("%d:%d", st.Dev, st.Ino) }

func fdKind(mode uint32) string {
	switch mode & unix.S_IFMT {
	case unix.S_IFREG:
		return "regular"
	case unix.S_IFDIR:
		return "dir"
	case unix.S_IFIFO:
		return "fifo"
	case unix.S_IFSOCK:
		return "sock"
	case unix.S_IFCHR, unix.S_IFBLK:
		return "device"
	}
	return "other"
}

// openFlag renders the named flag combination (FileOpsDefs!Flags)
func openFlag(mode string) int {
	switch mode {
	case "w":
		return os.O_WRONLY | os.O_CREATE | os.O_TRUNC
	case "rw":
		return os.O_RDWR | os.O_CREATE
	case "a":
		return os.O_WRONLY | os.O_APPEND
	case "ac":
		return os.O_WRONLY | os.O_APPEND | os.O_CREATE
	case "rwa":
		return os.O_RDWR | os.O_APPEND
	case "x":
		return os.O_WRONLY | os.O_CREATE | os.O_EXCL
	case "rwt":
		return os.O_RDWR | os.O_TRUNC
	case "ws":
		return os.O_WRONLY | os.O_SYNC | unix.O_CLOEXEC
	case "rc":
		return os.O_RDONLY | unix.O_CLOEXEC
	}
	return os.O_RDONLY
}

var trackedPath = map[string]bool{"a": true, "b": true, "c": true, "target": true}

// contentOf: size of a container file and whether it still starts with the planted bytes
func (e *env) contentOf(p string) (int, bool) {
	b, err := os.ReadFile(e.root(p))
	if err != nil {
		return -1, false
	}
	return len(b), strings.HasPrefix(string(b), "planted\n")
}

// a call still blocked after this long is recorded as blocked (FIFO opened without O_NONBLOCK ...)
const watchdog = 8 * time.Second

var (
	keptMu sync.Mutex
	kept   []*os.File
)

func keepAlive(f *os.File) {
	keptMu.Lock()
	kept = append(kept, f)
	keptMu.Unlock()
}

type foWorker struct {
	probeDir, scratch string
	envs              map[bool]*env // one container per credential mode, reused across cases
	e                 *env          // the one in use
}

func (w *foWorker) env(cred bool) (*env, error) {
	if w.envs == nil {
		w.envs = map[bool]*env{}
	}
	if e := w.envs[cred]; e != nil && !e.dead {
		w.e = e
		return e, nil
	}
	e, err := buildEnv(envCfg{Mounts: []string{"w", "tmp"}, Cred: cred, DevNul: true}, w.probeDir, w.scratch)
	if err != nil {
		return nil, err
	}
	w.envs[cred], w.e = e, e
	return e, nil
}

func (w *foWorker) close() {
	for _, e := range w.envs {
		e.destroy()
	}
}

// call runs f with a watchdog: a file operation that is still blocked after the cap is recorded as
// such and the environment is destroyed (which unblocks the call).
func (w *foWorker) call(f func()) (ms int, blocked bool) {
	done := make(chan struct{})
	t0 := time.Now()
	go func() { f(); close(done) }()
	select {
	case <-done:
	case <-time.After(watchdog):
		blocked = true
		w.e.destroy()
		select {
		case <-done:
		case <-time.After(20 * time.Second):
		}
	}
	return int(time.Since(t0) / time.Millisecond), blocked
}

func (w *foWorker) run(c foCase) foOut {
	out := foOut{ID: c.ID, Cred: c.Cred, FS: c.FS, Ev: []foEv{}}
	e, err := w.env(c.Cred)
	if err != nil {
		out.Setup = err.Error()
		return out
	}
	// clean slate, then let a program plant the state
	if err := e.Reset(); err != nil {
		out.Setup = "reset: " + err.Error()
		e.destroy()
		return out
	}
	args := []string{"/probe/contfs", "fs", "reg:/w/target", "dir:/w/tdir"}
	args = append(args, plantOp("/w/a", c.FS.A)...)
	args = append(args, plantOp("/w/b", c.FS.B)...)
	if c.FS.N > 0 {
		args = append(args, fmt.Sprintf("nreg:/w/n:%d", c.FS.N))
	}
	if c.FS.Ld > 0 {
		args = append(args, "ldir:/w")
	}
	switch c.FS.Tl {
	case "dir":
		args = append(args, "dir:/w/l")
	case "file":
		args = append(args, "reg:/w/l")
	case "link":
		// relative target: the host looks through /proc/<init>/root, where an absolute link target
		// would be resolved against the host's own root
		args = append(args, "sym:/w/l:t")
	}
	if c.FS.Tt == "dir" {
		args = append(args, "dir:/w/t")
	}
	if c.FS.Sub == "dir" {
		args = append(args, "dir:/w/sub")
		args = append(args, plantOp("/w/sub/c", c.FS.C)...)
	}
	r := e.runProg(args, 0)
	for _, line := range strings.Split(r.Out, "\n") {
		f := strings.Fields(line)
		if len(f) == 3 && f[0] == "fs" && f[2] != "0" {
			out.Setup = "planting failed: " + line + " of " + strings.Join(args, " ")
			return out
		}
	}
	if r.Status != "Normal" {
		out.Setup = "planting program: " + r.Status + " " + r.Err + r.Errs
		return out
	}
	out.Ev = append(out.Ev, foEv{E: "state", Obs: e.observeFS(), NObs: e.countNumbered(), LObs: e.countLong(), Items: []foItem{}, Links: []foLink{}, Res: []foRes{}, Errs: []string{}})
	for _, op := range c.Ops {
		if op.Op == "open" && op.Many > 0 && len(op.Items) > 0 {
			it := op.Items[0]
			op.Items = make([]foItem, op.Many)
			for i := range op.Items {
				op.Items[i] = it
			}
		}
		ev := foEv{E: op.Op, Items: op.Items, Links: op.Links, P: op.P, Res: []foRes{}, Errs: []string{}}
		if ev.Items == nil {
			ev.Items = []foItem{}
		}
		if ev.Links == nil {
			ev.Links = []foLink{}
		}
		switch op.Op {
		case "open":
			cmds := make([]container.OpenCmd, 0, len(op.Items))
			for _, it := range op.Items {
				cmds = append(cmds, container.OpenCmd{Path: itemPath(it), Flag: openFlag(it.Mode), Perm: os.FileMode(it.Perm), MkdirAll: it.Mk})
			}
			var res []container.OpenCmdResult
			var cerr error
			ev.Ms, ev.Blocked = w.call(func() { res, cerr = e.Open(cmds) })
			if cerr != nil {
				ev.Err = clip(cerr.Error(), 300)
			}
			if !ev.Blocked {
				for i, rr := range res {
					fr := foRes{St: []string{}}
					if rr.Err != nil {
						fr.Err = clip(rr.Err.Error(), 200)
					}
					if rr.File != nil {
						fr.Fd = true
						var st unix.Stat_t
						fd := int(rr.File.Fd())
						if err := unix.Fstat(fd, &st); err == nil {
							fr.Ident = ident(&st)
							fr.Kind = fdKind(st.Mode)
						}
						if err := unix.Fstat(fd, &st); err == nil {
							fr.Osize = int(st.Size)
						}
						if i < len(op.Items) {
							var ps unix.Stat_t
							if err := unix.Lstat(e.root(itemPath(op.Items[i])), &ps); err == nil {
								fr.Pident = ident(&ps)
								fr.Pmode = int(ps.Mode & 0777)
							}
						}
						fr.St = []string{}
						if fl, err := unix.FcntlInt(uintptr(fd), unix.F_GETFL, 0); err == nil {
							fr.Acc = []string{"r", "w", "rw", "?"}[fl&unix.O_ACCMODE]
							if fl&unix.O_APPEND != 0 {
								fr.St = append(fr.St, "APPEND")
							}
							if fl&unix.O_SYNC == unix.O_SYNC {
								fr.St = append(fr.St, "SYNC")
							}
							if fl&unix.O_NONBLOCK != 0 {
								fr.St = append(fr.St, "NONBLOCK")
							}
							if fl&unix.O_DIRECT != 0 {
								fr.St = append(fr.St, "DIRECT")
							}
						}
						if fl, err := unix.FcntlInt(uintptr(fd), unix.F_GETFD, 0); err == nil {
							fr.Cloexec = fl&unix.FD_CLOEXEC != 0
						}
					}
					ev.Res = append(ev.Res, fr)
				}
				// a real write through every writable descriptor of a tracked path, in item order
				// (the descriptor is fresh: offset 0 unless it appends)
				for i := range ev.Res {
					if i >= len(op.Items) || !ev.Res[i].Fd || !trackedPath[op.Items[i].P] || openFlag(op.Items[i].Mode)&unix.O_ACCMODE == unix.O_RDONLY {
						continue
					}
					if n, err := unix.Write(int(res[i].File.Fd()), []byte("APP")); err == nil && n == 3 {
						ev.Res[i].Wrote = true
					}
					ev.Res[i].Wsize, ev.Res[i].Worig = e.contentOf(itemPath(op.Items[i]))
				}
				// close every distinct descriptor once (a faulty Open may hand out one number
				// several times; closing it repeatedly would hit unrelated descriptors of the driver)
				closed := map[uintptr]bool{}
				for _, rr := range res {
					if rr.File != nil {
						if fd := rr.File.Fd(); !closed[fd] {
							closed[fd] = true
							rr.File.Close()
						} else {
							keepAlive(rr.File) // never let its cleanup close the number again
						}
					}
				}
			}
		case "symlink":
			links := make([]container.SymbolicLink, 0, len(op.Links))
			for _, l := range op.Links {
				lp := foPath[l.Link]
				if l.Link == "L" {
					lp = longPath(l.Len, l.What, l.Idx)
				}
				links = append(links, container.SymbolicLink{LinkPath: lp, Target: foPath[l.To]})
			}
			var errs []error
			var cerr error
			ev.Ms, ev.Blocked = w.call(func() { errs, cerr = e.Symlink(links) })
			if cerr != nil {
				ev.Err = clip(cerr.Error(), 300)
			}
			for _, x := range errs {
				if x != nil {
					ev.Errs = append(ev.Errs, clip(x.Error(), 200))
				} else {
					ev.Errs = append(ev.Errs, "")
				}
			}
		case "delete":
			var cerr error
			ev.Ms, ev.Blocked = w.call(func() { cerr = e.Delete(foPath[op.P]) })
			if cerr != nil {
				ev.Err = clip(cerr.Error(), 300)
			}
		}
		if ev.Blocked {
			out.Ev = append(out.Ev, ev)
			return out
		}
		ev.Post = e.observeFS()
		ev.NPost = e.countNumbered()
		ev.LPost = e.countLong()
		out.Ev = append(out.Ev, ev)
		// Ping carries a 3 s deadline.  To keep a slow machine from failing it, first make one
		// round trip without a deadline (an empty Symlink request is answered by an error reply):
		// when it has returned the init is running and idle.  If the previous operation broke or
		// desynchronised the protocol, this call or the Ping after it fails all the same.
		_, syncBlocked := w.call(func() { e.Symlink(nil) })
		pe := foEv{E: "ping", Items: []foItem{}, Links: []foLink{}, Res: []foRes{}, Errs: []string{}}
		var perr error
		if syncBlocked {
			pe.Blocked = true
			perr = fmt.Errorf("no answer to an empty request within the watchdog time")
		} else {
			perr = e.Ping()
		}
		pe.Ok = perr == nil
		if perr != nil {
			pe.Err = clip(perr.Error()+" | "+e.stderr.String(), 300)
		}
		out.Ev = append(out.Ev, pe)
		if perr != nil {
			e.destroy()
			return out
		}
	}
	return out
}

// fileops <cases.ndjson> <out.ndjson> <probe dir> <scratch> <workers>
func fileopsMain(args []string) error {
	if len(args) < 5 {
		return fmt.Errorf("usage: fileops cases out probedir scratch workers")
	}
	cs, err := hx.ReadLines[foCase](args[0])
	if err != nil {
		return err
	}
	wr, err := hx.NewLineWriter(args[1])
	if err != nil {
		return err
	}
	defer wr.Close()
	nw, _ := strconv.Atoi(args[4])
	if nw < 1 {
		nw = 1
	}
	res := make([]foOut, len(cs))
	ch := make(chan int)
	var wg sync.WaitGroup
	for k := 0; k < nw; k++ {
		wg.Add(1)
		go func() {
			defer wg.Done()
			w := &foWorker{probeDir: args[2], scratch: args[3]}
			for i := range ch {
				res[i] = w.run(cs[i])
			}
			w.close()
		}()
	}
	for i := range cs {
		ch <- i
	}
	close(ch)
	wg.Wait()
	for _, r := range res {
		wr.Write(r)
	}
	return nil
}

var _ = syscall.O_RDONLY
