package main

// Driver of family contfs: C13 (Reset leaves nothing behind; sealed memfd executables) and
// C14 (Open/Delete/Symlink batches).  It re-executes itself as the container init, so
// container.Init() is the first thing main does.

import (
	"verifharness/hx"

	"github.com/criyle/go-sandbox/container"
)

func main() {
	container.Init()
	hx.Register("explore", exploreMain)
	hx.Register("reset", resetMain)
	hx.Register("memfd", memfdMain)
	hx.Register("fileops", fileopsMain)
	hx.Main()
}
