package main

// Readings in documented units.
//   units  : a real burner process (known rusage, known allocation) runs inside a real group and
//            the library's readings are logged next to the process's own accounting.
//   fixture: TLC-generated contents of the kernel's statistics files are written to a scratch
//            directory that the library is made to open as a group; the readers' answers are logged.

import (
	"errors"
	"fmt"
	"os"
	"os/exec"
	"path/filepath"
	"strconv"
	"strings"
	"syscall"
	"time"

	"verifharness/hx"

	"github.com/criyle/go-sandbox/pkg/cgroup"
)

// burn <cpu-ms> <MiB>: wait for a byte on stdin, then use that much CPU time and touch that much memory
func burnMain(args []string) error {
	if len(args) != 2 {
		return errors.New("usage: burn ms mib")
	}
	ms, _ := strconv.Atoi(args[0])
	mib, _ := strconv.Atoi(args[1])
	b := make([]byte, 1)
	os.Stdin.Read(b)
	mem := make([]byte, mib<<20)
	for i := 0; i < len(mem); i += 4096 {
		mem[i] = byte(i)
	}
	var ru syscall.Rusage
	x := 1
	for {
		for i := 0; i < 200000; i++ {
			x = x*1664525 + 1013904223
		}
		syscall.Getrusage(syscall.RUSAGE_SELF, &ru)
		used := time.Duration(ru.Utime.Nano() + ru.Stime.Nano())
		if used >= time.Duration(ms)*time.Millisecond {
			break
		}
	}
	if x == 42 || mem[len(mem)/2] == 7 {
		fmt.Fprint(os.Stderr, "")
	}
	return nil
}

type unitsCase struct {
	Id  int `json:"id"`
	Ver int `json:"ver"`
	Ms  int `json:"ms"`
	Mib int `json:"mib"`
}

type unitsObs struct {
	Id       int    `json:"id"`
	Ver      int    `json:"ver"`
	Ms       int    `json:"ms"`
	Mib      int    `json:"mib"`
	RusageUs int    `json:"rusage_us"` // the burner's utime+stime as reported by wait4
	CpuErr   bool   `json:"cpu_err"`
	CpuRaw   string `json:"cpu_raw"` // CPUUsage() as returned
	CpuUs    int    `json:"cpu_us"`  // the same value divided by 1000 (fits TLC's integers)
	KernelUs int    `json:"kernel_us"`
	MemErr   bool   `json:"mem_err"`
	MemRaw   string `json:"mem_raw"` // MemoryMaxUsage() as returned
	MemKib   int    `json:"mem_kib"` // divided by 1024
	CurErr   bool   `json:"cur_err"`
	CurKib   int    `json:"cur_kib"` // MemoryUsage()/1024 after the burner exited
	PeakErr  bool   `json:"peak_err"`
	Peak     int    `json:"peak"`
	Procs    int    `json:"procs"` // len(Processes()) while the burner was inside
	In       bool   `json:"in"`    // the burner's pid was listed by Processes()
	Split    bool   `json:"split"` // after AddProc some thread of the (multi-threaded) burner is not in the group
}

// units <cases.ndjson> <obs.ndjson> <nonce>
func unitsMain(args []string) error {
	if len(args) != 3 {
		return errors.New("usage: units cases.ndjson obs.ndjson nonce")
	}
	cases, err := hx.ReadLines[unitsCase](args[0])
	if err != nil {
		return err
	}
	out, err := hx.NewLineWriter(args[1])
	if err != nil {
		return err
	}
	defer out.Close()
	for _, c := range cases {
		o, err := units1(c, args[2])
		if err != nil {
			return fmt.Errorf("units case %d: %w", c.Id, err)
		}
		out.Write(o)
	}
	return nil
}

func units1(c unitsCase, nonce string) (o *unitsObs, err error) {
	l := newLayout(c.Ver, []string{"cpuacct", "memory"}, nonce, 100000+c.Id)
	setType(c.Ver)
	defer l.cleanup()
	o = &unitsObs{Id: c.Id, Ver: c.Ver, Ms: c.Ms, Mib: c.Mib}
	base, err := cgroup.New(l.apiPrefix(), l.controllers())
	if err != nil {
		return nil, err
	}
	g, err := base.New("u")
	if err != nil {
		return nil, err
	}
	r, w, err := os.Pipe()
	if err != nil {
		return nil, err
	}
	cmd := exec.Command("/proc/self/exe", "burn", fmt.Sprint(c.Ms), fmt.Sprint(c.Mib))
	cmd.Stdin = r
	cmd.SysProcAttr = &syscall.SysProcAttr{Pdeathsig: syscall.SIGKILL}
	if err := cmd.Start(); err != nil {
		return nil, err
	}
	r.Close()
	defer w.Close()
	if err := g.AddProc(cmd.Process.Pid); err != nil {
		cmd.Process.Kill()
		cmd.Wait()
		return nil, fmt.Errorf("AddProc: %w", err)
	}
	_, thr := l.where(cmd.Process.Pid)
	for _, c := range l.ctls {
		if len(thr[c]) != 1 || len(thr[c][0]) != 1 || thr[c][0][0] != "u" {
			o.Split = true
		}
	}
	if ps, err := g.Processes(); err == nil {
		o.Procs = len(ps)
		for _, p := range ps {
			if p == cmd.Process.Pid {
				o.In = true
			}
		}
	}
	w.Write([]byte{1})
	if err := cmd.Wait(); err != nil {
		return nil, fmt.Errorf("burner: %w", err)
	}
	ru := cmd.ProcessState.SysUsage().(*syscall.Rusage)
	o.RusageUs = int((ru.Utime.Nano() + ru.Stime.Nano()) / 1000)
	v, e := g.CPUUsage()
	o.CpuErr, o.CpuRaw, o.CpuUs = e != nil, fmt.Sprint(v), int(v/1000)
	// kernel truth in the kernel's documented unit
	if c.Ver == 1 {
		n, _ := strconv.ParseUint(readTrim(filepath.Join(l.root("cpuacct"), "u", "cpuacct.usage")), 10, 64)
		o.KernelUs = int(n / 1000)
	} else {
		for _, line := range strings.Split(readTrim(filepath.Join(l.root("u"), "u", "cpu.stat")), "\n") {
			f := strings.Fields(line)
			if len(f) == 2 && f[0] == "usage_usec" {
				o.KernelUs, _ = strconv.Atoi(f[1])
			}
		}
	}
	v, e = g.MemoryMaxUsage()
	o.MemErr, o.MemRaw, o.MemKib = e != nil, fmt.Sprint(v), int(v/1024)
	v, e = g.MemoryUsage()
	o.CurErr, o.CurKib = e != nil, int(v/1024)
	v, e = g.ProcessPeak()
	o.PeakErr, o.Peak = e != nil, int(v)
	g.Destroy()
	base.Destroy()
	return o, nil
}

// ---- fixtures

type fixCase struct {
	Id      int        `json:"id"`
	Reader  string     `json:"reader"` // v2cpu v2mem v2mempeak v2pidspeak v1cpu v1mem v1memmax
	Lines   [][]string `json:"lines"`  // fields of each line of the statistics file
	Missing bool       `json:"missing"`
	Nl      bool       `json:"nl"` // trailing newline
	Got     string     `json:"got"`
	Err     bool       `json:"err"`
	Errs    string     `json:"errs"`
}

var fixFile = map[string]string{
	"v2cpu": "cpu.stat", "v2mem": "memory.current", "v2mempeak": "memory.peak", "v2pidspeak": "pids.peak",
	"v1cpu": "cpuacct.usage", "v1mem": "memory.usage_in_bytes", "v1memmax": "memory.max_usage_in_bytes",
}

// fixture <cases.ndjson> <obs.ndjson> <dir>
func fixtureMain(args []string) error {
	if len(args) != 3 {
		return errors.New("usage: fixture cases.ndjson obs.ndjson dir")
	}
	cases, err := hx.ReadLines[fixCase](args[0])
	if err != nil {
		return err
	}
	out, err := hx.NewLineWriter(args[1])
	if err != nil {
		return err
	}
	defer out.Close()
	dir, err := filepath.Abs(args[2])
	if err != nil {
		return err
	}
	for _, c := range cases {
		d := filepath.Join(dir, fmt.Sprintf("fix%d", c.Id))
		if err := os.MkdirAll(d, 0755); err != nil {
			return err
		}
		os.WriteFile(filepath.Join(d, "cgroup.controllers"), []byte("cpu memory pids\n"), 0644)
		if !c.Missing {
			var sb strings.Builder
			for i, l := range c.Lines {
				if i > 0 {
					sb.WriteString("\n")
				}
				sb.WriteString(strings.Join(l, " "))
			}
			if c.Nl {
				sb.WriteString("\n")
			}
			os.WriteFile(filepath.Join(d, fixFile[c.Reader]), []byte(sb.String()), 0644)
		}
		var cg cgroup.Cgroup
		if strings.HasPrefix(c.Reader, "v2") {
			setType(2)
			cg, err = cgroup.OpenExisting("../../.."+d, &cgroup.Controllers{CPU: true, Memory: true, Pids: true})
		} else {
			setType(1)
			cg, err = cgroup.OpenExisting("../../../.."+d, &cgroup.Controllers{CPUAcct: true, Memory: true})
		}
		if err != nil {
			return fmt.Errorf("fixture %d: cannot open %s as a group: %w", c.Id, d, err)
		}
		if cg == nil { // nothing to read through: recorded as a refused reading
			c.Got, c.Err, c.Errs = "0", true, "OpenExisting returned no handle and no error"
			out.Write(c)
			os.RemoveAll(d)
			continue
		}
		var v uint64
		var e error
		switch c.Reader {
		case "v2cpu", "v1cpu":
			v, e = cg.CPUUsage()
		case "v2mem", "v1mem":
			v, e = cg.MemoryUsage()
		case "v2mempeak", "v1memmax":
			v, e = cg.MemoryMaxUsage()
		case "v2pidspeak":
			v, e = cg.ProcessPeak()
		default:
			return fmt.Errorf("unknown reader %q", c.Reader)
		}
		c.Got, c.Err, c.Errs = fmt.Sprint(v), e != nil, errText(e)
		out.Write(c)
		os.RemoveAll(d)
	}
	return nil
}
