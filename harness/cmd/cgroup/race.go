package main

// Concurrent creators.  Every creator is a goroutine calling the public API; it stops at the
// verif gate(s) inside pkg/cgroup and is released by this driver in the order TLC chose, one
// segment at a time, so an interleaving of the creators' critical steps is replayed exactly.

import (
	"errors"
	"fmt"
	"runtime"
	"strconv"
	"strings"
	"sync"

	"verifharness/hx"

	"github.com/criyle/go-sandbox/pkg/cgroup"
	"github.com/criyle/go-sandbox/pkg/verifhook"
)

type creator struct {
	Kind  string   `json:"kind"`  // new (handle.New) | top (cgroup.New of base/name) | random
	Name  string   `json:"name"`  //
	Names []string `json:"names"` // random: forced names
}

type raceCase struct {
	Id       int       `json:"id"`
	Ver      int       `json:"ver"`
	Ctls     []string  `json:"ctls"`
	Pre      []string  `json:"pre"`      // child groups that exist before the round (created by an earlier handle)
	Creators []creator `json:"creators"` // 1-based in the schedule
	Sched    []int     `json:"sched"`    // creator to release next (ignored once it has finished)
	Destroy  []int     `json:"destroy"`  // creators whose handles are destroyed afterwards, in this order
}

func goid() int {
	var buf [64]byte
	n := runtime.Stack(buf[:], false)
	f := strings.Fields(string(buf[:n]))
	id, _ := strconv.Atoi(f[1])
	return id
}

var gateNames = []string{"cgroup.ensure.stat-mkdir", "cgroup.newv2.stat-mkdir"}

// race <cases.ndjson> <traces.ndjson> <nonce>
func raceMain(args []string) error {
	if len(args) != 3 {
		return errors.New("usage: race cases.ndjson traces.ndjson nonce")
	}
	cases, err := hx.ReadLines[raceCase](args[0])
	if err != nil {
		return err
	}
	out, err := hx.NewLineWriter(args[1])
	if err != nil {
		return err
	}
	defer out.Close()
	for _, c := range cases {
		tr, err := raceCase1(c, args[2])
		if err != nil {
			return fmt.Errorf("race case %d: %w", c.Id, err)
		}
		out.Write(tr)
	}
	return nil
}

func raceCase1(c raceCase, nonce string) (tr *trace, err error) {
	l := newLayout(c.Ver, c.Ctls, nonce, c.Id)
	setType(c.Ver)
	tr = &trace{Id: c.Id, Kind: "race", Ver: c.Ver, Ctls: l.ctls, Pids: []string{}, Ev: []event{}}
	tr0 := tr
	defer func() {
		verifhook.ClearGates()
		cgroup.SetRandomNameForVerif(nil)
		for _, d := range l.dirs() {
			tr0.Left += len(d)
		}
		l.cleanup()
	}()
	mk := func(op string) event {
		return event{Op: op, Names: []string{}, Path: []string{}, Rb: []string{}, Mem: map[string]map[string][]string{},
			Lims: []limit{}, Allowed: map[string]string{}, Thr: map[string]map[string][][]string{}, Ten: []tenant{}, Self: l.place("/proc/self/cgroup"),
			Nthr: map[string]int{}, Pcur: []limit{}}
	}
	base, err := cgroup.New(l.apiPrefix(), l.controllers())
	if err != nil {
		return nil, err
	}
	ev := mk("top")
	ev.N, ev.Ex, ev.Dirs = 1, base.Existing(), l.dirs()
	tr.Ev = append(tr.Ev, ev)
	handles := []cgroup.Cgroup{nil, base}
	for _, n := range c.Pre {
		cg, err := base.New(n)
		if err != nil {
			return nil, err
		}
		handles = append(handles, cg)
		ev := mk("new")
		ev.H, ev.Name, ev.N, ev.Ex, ev.Dirs = 1, n, len(handles)-1, cg.Existing(), l.dirs()
		tr.Ev = append(tr.Ev, ev)
	}
	// ---- the round
	type arrival struct {
		g    int
		done bool
	}
	var mu sync.Mutex
	byGoid := map[int]int{}
	arrive := make(chan arrival)
	release := make([]chan struct{}, len(c.Creators)+1)
	for i := range release {
		release[i] = make(chan struct{})
	}
	gate := func() {
		mu.Lock()
		g, ok := byGoid[goid()]
		mu.Unlock()
		if !ok {
			return
		}
		arrive <- arrival{g, false}
		<-release[g]
	}
	for _, n := range gateNames {
		verifhook.SetGate(n, gate)
	}
	// forced random names, per goroutine
	randIdx := map[int]int{}
	cgroup.SetRandomNameForVerif(func() string {
		mu.Lock()
		defer mu.Unlock()
		g, ok := byGoid[goid()]
		if !ok || c.Creators[g-1].Kind != "random" {
			return ""
		}
		i := randIdx[g]
		if i >= len(c.Creators[g-1].Names) {
			return noName
		}
		randIdx[g] = i + 1
		return c.Creators[g-1].Names[i]
	})
	type result struct {
		cg  cgroup.Cgroup
		err error
	}
	results := make([]result, len(c.Creators)+1)
	for i, cr := range c.Creators {
		g := i + 1
		cr := cr
		go func() {
			mu.Lock()
			byGoid[goid()] = g
			mu.Unlock()
			arrive <- arrival{g, false} // start line
			<-release[g]
			var cg cgroup.Cgroup
			var err error
			switch cr.Kind {
			case "new":
				cg, err = base.New(cr.Name)
			case "random":
				cg, err = base.Random("*")
			case "top":
				cg, err = cgroup.New(l.apiPrefix()+"/"+cr.Name, l.controllers())
			}
			results[g] = result{cg, err}
			arrive <- arrival{g, true}
		}()
	}
	handleOf := map[int]int{}
	waiting := map[int]bool{} // creators blocked at a gate (or at the start line)
	finished := map[int]bool{}
	collect := func() {
		a := <-arrive
		if a.done {
			finished[a.g] = true
			r := results[a.g]
			ev := mk("cdone")
			ev.G, ev.Name, ev.Names = a.g, c.Creators[a.g-1].Name, append([]string{}, c.Creators[a.g-1].Names...)
			ev.Kind = c.Creators[a.g-1].Kind
			ev.Err, ev.Errs = r.err != nil, errText(r.err)
			if r.err == nil && r.cg != nil {
				handles = append(handles, r.cg)
				ev.N, ev.Ex = len(handles)-1, r.cg.Existing()
				handleOf[a.g] = ev.N
				if p := handlePath(l, r.cg); p != "" {
					ev.Path = strings.Split(p, "/")
				}
			}
			ev.Dirs = l.dirs()
			tr.Ev = append(tr.Ev, ev)
		} else {
			waiting[a.g] = true
		}
	}
	for len(waiting) < len(c.Creators) {
		collect() // everybody at the start line
	}
	step := func(g int) {
		if finished[g] || !waiting[g] {
			return
		}
		delete(waiting, g)
		release[g] <- struct{}{}
		collect() // g either reaches its next gate or finishes; nobody else is running
	}
	for _, g := range c.Sched {
		if g >= 1 && g <= len(c.Creators) {
			step(g)
		}
	}
	for len(finished) < len(c.Creators) { // schedule exhausted: let the rest run to completion, in creator order
		for g := 1; g <= len(c.Creators); g++ {
			step(g)
		}
	}
	verifhook.ClearGates()
	// ---- afterwards: destroy the handles one by one
	for _, g := range c.Destroy {
		n, ok := handleOf[g]
		if !ok {
			continue
		}
		err := handles[n].Destroy()
		ev := mk("rdestroy")
		ev.H, ev.Err, ev.Errs, ev.Dirs = n, err != nil, errText(err), l.dirs()
		tr.Ev = append(tr.Ev, ev)
	}
	return tr, nil
}
