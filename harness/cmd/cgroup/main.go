package main

// C20 driver: replays TLC-generated histories and creator schedules on the machine's real
// cgroup v1 hierarchy (/sys/fs/cgroup/<controller>/verif-c20-<nonce>-...) and on the real cgroup2
// tree at /sys/fs/cgroup/unified, through the public API of pkg/cgroup.  After every operation the
// state of the kernel objects is read back *without* the library (directory listing, /proc/<pid>/cgroup,
// limit files) and logged; TLC validates the log against Cgroup.tla.  No oracle here.

import (
	"errors"
	"fmt"
	"os"
	"os/exec"
	"path/filepath"
	"runtime"
	"sort"
	"strconv"
	"strings"
	"sync"
	"syscall"
	"time"

	"verifharness/hx"

	"github.com/criyle/go-sandbox/pkg/cgroup"
)

const cgRoot = "/sys/fs/cgroup"

// a name cgroupfs refuses (EINVAL): returned by the random-name override once the forced names are
// used up, so that a Random that keeps retrying ends with an error instead of creating groups for ever
const noName = "no\nname"

func main() {
	hx.Register("idle", idleMain)
	hx.Register("burn", burnMain)
	hx.Register("run", runMain)
	hx.Register("race", raceMain)
	hx.Register("units", unitsMain)
	hx.Register("fixture", fixtureMain)
	hx.Register("sweep", sweepMain)
	hx.Main()
}

// idle: helper process that is moved between groups; lives until its stdin is closed.
// It is deliberately multi-threaded before anybody moves it: three extra goroutines are locked
// to OS threads of their own (plus the threads of the Go runtime); "r" on stdout = threads are up.
func idleMain([]string) error {
	var up sync.WaitGroup
	block := make(chan struct{})
	for i := 0; i < 3; i++ {
		up.Add(1)
		go func() {
			runtime.LockOSThread()
			up.Done()
			<-block
		}()
	}
	up.Wait()
	os.Stdout.Write([]byte("r"))
	b := make([]byte, 1)
	os.Stdin.Read(b)
	return nil
}

type helper struct {
	cmd *exec.Cmd
	w   *os.File
}

func spawnIdle() (*helper, error) {
	r, w, err := os.Pipe()
	if err != nil {
		return nil, err
	}
	cmd := exec.Command("/proc/self/exe", "idle")
	cmd.Stdin = r
	cmd.SysProcAttr = &syscall.SysProcAttr{Pdeathsig: syscall.SIGKILL}
	ready, err := cmd.StdoutPipe()
	if err != nil {
		return nil, err
	}
	if err := cmd.Start(); err != nil {
		r.Close()
		w.Close()
		return nil, err
	}
	r.Close()
	if _, err := ready.Read(make([]byte, 1)); err != nil { // its threads are running
		cmd.Process.Kill()
		cmd.Wait()
		w.Close()
		return nil, fmt.Errorf("helper did not come up: %w", err)
	}
	return &helper{cmd, w}, nil
}

// helpers are started ahead of time by a few goroutines (a Go program needs a moment to come up)
var (
	pool     chan *helper
	poolStop chan struct{}
	poolWG   sync.WaitGroup
)

func startPool() {
	pool = make(chan *helper, 12)
	poolStop = make(chan struct{})
	for i := 0; i < 4; i++ {
		poolWG.Add(1)
		go func() {
			defer poolWG.Done()
			for {
				select {
				case <-poolStop:
					return
				default:
				}
				h, err := spawnIdle()
				if err != nil {
					h = nil
				}
				select {
				case pool <- h:
					if h == nil {
						return
					}
				case <-poolStop:
					if h != nil {
						h.stop()
					}
					return
				}
			}
		}()
	}
}

func getIdle() (*helper, error) {
	if pool == nil {
		return spawnIdle()
	}
	if h := <-pool; h != nil {
		return h, nil
	}
	return nil, errors.New("cannot start a helper process")
}

func drainPool() {
	close(poolStop)
	poolWG.Wait()
	for {
		select {
		case h := <-pool:
			if h != nil {
				h.stop()
			}
		default:
			return
		}
	}
}

func (h *helper) stop() {
	h.cmd.Process.Kill()
	h.cmd.Wait()
	h.w.Close()
}

// ---- layout of one case on the real hierarchies

type layout struct {
	ver    int      // 1 | 2
	ctls   []string // v1: controller names; v2: ["u"]
	prefix string   // verif-c20-<nonce>-<case>
}

func (l *layout) apiPrefix() string {
	if l.ver == 2 {
		return "unified/" + l.prefix
	}
	return l.prefix
}

func (l *layout) root(ctl string) string {
	if l.ver == 2 {
		return filepath.Join(cgRoot, "unified", l.prefix)
	}
	return filepath.Join(cgRoot, ctl, l.prefix)
}

func (l *layout) controllers() *cgroup.Controllers {
	ct := &cgroup.Controllers{}
	if l.ver == 1 {
		for _, c := range l.ctls {
			ct.Set(c, true)
		}
	}
	return ct
}

// dirs lists the group directories below (and including) the case's base, per hierarchy,
// as paths relative to the base ([] = the base itself)
func (l *layout) dirs() map[string][][]string {
	out := map[string][][]string{}
	for _, c := range l.ctls {
		list := [][]string{}
		root := l.root(c)
		var walk func(dir string, rel []string)
		walk = func(dir string, rel []string) {
			ents, err := os.ReadDir(dir)
			if err != nil {
				return
			}
			list = append(list, append([]string{}, rel...))
			for _, e := range ents {
				if e.IsDir() {
					walk(filepath.Join(dir, e.Name()), append(rel, e.Name()))
				}
			}
		}
		walk(root, nil)
		out[c] = list
	}
	return out
}

// place: the group a task is in, per hierarchy, parsed from a /proc/.../cgroup file (kernel truth)
func (l *layout) place(file string) map[string][]string {
	out := map[string][]string{}
	b, err := os.ReadFile(file)
	if err != nil {
		return nil // the task is gone
	}
	for _, line := range strings.Split(string(b), "\n") {
		f := strings.SplitN(line, ":", 3)
		if len(f) != 3 {
			continue
		}
		for _, c := range l.ctls {
			match := false
			if l.ver == 2 {
				match = f[0] == "0" && f[1] == ""
			} else {
				for _, n := range strings.Split(f[1], ",") {
					if n == c {
						match = true
					}
				}
			}
			if !match {
				continue
			}
			p := f[2]
			switch {
			case p == "/"+l.prefix:
				out[c] = []string{}
			case strings.HasPrefix(p, "/"+l.prefix+"/"):
				out[c] = strings.Split(strings.TrimPrefix(p, "/"+l.prefix+"/"), "/")
			default:
				out[c] = []string{"-"}
			}
		}
	}
	return out
}

func tids(pid int) []int {
	ents, _ := os.ReadDir(fmt.Sprintf("/proc/%d/task", pid))
	var out []int
	for _, e := range ents {
		if t, err := strconv.Atoi(e.Name()); err == nil {
			out = append(out, t)
		}
	}
	return out
}

// where reports, per hierarchy, the group of the process (its thread group leader) and the distinct
// groups of ALL its threads (/proc/<pid>/task/<tid>/cgroup)
func (l *layout) where(pid int) (leader map[string][]string, threads map[string][][]string) {
	leader = l.place(fmt.Sprintf("/proc/%d/cgroup", pid))
	if leader == nil {
		leader = map[string][]string{}
		for _, c := range l.ctls {
			leader[c] = []string{"?"}
		}
	}
	threads = map[string][][]string{}
	seen := map[string]bool{}
	for _, t := range tids(pid) {
		for c, p := range l.place(fmt.Sprintf("/proc/%d/task/%d/cgroup", pid, t)) {
			k := c + "\x00" + strings.Join(p, "/")
			if !seen[k] {
				seen[k] = true
				threads[c] = append(threads[c], p)
			}
		}
	}
	for _, c := range l.ctls {
		if threads[c] == nil {
			threads[c] = [][]string{}
		}
		sort.Slice(threads[c], func(i, j int) bool { return strings.Join(threads[c][i], "/") < strings.Join(threads[c][j], "/") })
	}
	return leader, threads
}

// home: the groups the driver started in, per hierarchy name as in /proc/self/cgroup
var home = func() map[string]string {
	m := map[string]string{}
	b, _ := os.ReadFile("/proc/self/cgroup")
	for _, line := range strings.Split(string(b), "\n") {
		f := strings.SplitN(line, ":", 3)
		if len(f) == 3 {
			for _, n := range strings.Split(f[1], ",") {
				m[n] = f[2]
			}
		}
	}
	return m
}()

// rescue: if a call moved the driver itself into a group of the case (recorded in the event), it goes
// back where it came from, so that the limits of the case do not apply to the driver
func (l *layout) rescue(self map[string][]string) {
	for _, c := range l.ctls {
		if p := self[c]; len(p) == 1 && p[0] == "-" {
			continue
		}
		dir := filepath.Join(cgRoot, c, home[c])
		if l.ver == 2 {
			dir = filepath.Join(cgRoot, "unified", home[""])
		}
		os.WriteFile(filepath.Join(dir, "cgroup.procs"), []byte(strconv.Itoa(os.Getpid())), 0644)
	}
}

// tenant: which helpers have at least one task listed in the `tasks` file of a group
type tenant struct {
	Ctl  string   `json:"ctl"`
	Path []string `json:"path"`
	Who  []string `json:"who"`
}

func (l *layout) tenants(dirs map[string][][]string, helpers map[string]*helper) []tenant {
	out := []tenant{}
	owner := map[int]string{}
	for n, h := range helpers {
		for _, t := range tids(h.cmd.Process.Pid) {
			owner[t] = n
		}
	}
	file := "tasks"
	if l.ver == 2 {
		file = "cgroup.threads"
	}
	for _, c := range l.ctls {
		for _, d := range dirs[c] {
			b, _ := os.ReadFile(filepath.Join(append(append([]string{l.root(c)}, d...), file)...))
			who := map[string]bool{}
			for _, f := range strings.Fields(string(b)) {
				if t, err := strconv.Atoi(f); err == nil && owner[t] != "" {
					who[owner[t]] = true
				}
			}
			names := []string{}
			for n := range who {
				names = append(names, n)
			}
			sort.Strings(names)
			out = append(out, tenant{Ctl: c, Path: append([]string{}, d...), Who: names})
		}
	}
	return out
}

// cleanup removes everything the case created: leaf first, never outside the case's base
func (l *layout) cleanup() {
	for attempt := 0; attempt < 50; attempt++ {
		left := false
		for _, c := range l.ctls {
			root := l.root(c)
			var dirs []string
			filepath.WalkDir(root, func(p string, d os.DirEntry, err error) error {
				if err == nil && d.IsDir() {
					dirs = append(dirs, p)
				}
				return nil
			})
			sort.Slice(dirs, func(i, j int) bool { return len(dirs[i]) > len(dirs[j]) })
			for _, d := range dirs {
				if err := syscall.Rmdir(d); err != nil && !errors.Is(err, syscall.ENOENT) {
					left = true
				}
			}
		}
		if !left {
			return
		}
		time.Sleep(10 * time.Millisecond)
	}
}

func errText(err error) string {
	if err == nil {
		return ""
	}
	return err.Error()
}

// ---- sequential histories

type op struct {
	Op    string   `json:"op"`    // top | mk | new | random | nest | open | add | set | destroy
	H     int      `json:"h"`     // handle index (0 = the base handle)
	Name  string   `json:"name"`  // new / nest: child name
	Names []string `json:"names"` // random: names forced in turn; mk: hierarchies
	Path  []string `json:"path"`  // open: path relative to the base
	Pid   string   `json:"pid"`   // add: p1 | p2
	Kind  string   `json:"kind"`  // set: pids | mem | cpu
	Val   int      `json:"val"`
}

type kase struct {
	Id   int      `json:"id"`
	Ver  int      `json:"ver"`
	Ctls []string `json:"ctls"`
	Ops  []op     `json:"ops"`
}

type event struct {
	Op      string                           `json:"op"`
	H       int                              `json:"h"`
	Name    string                           `json:"name"`
	Names   []string                         `json:"names"`
	Path    []string                         `json:"path"`
	Pid     string                           `json:"pid"`
	Kind    string                           `json:"kind"`
	Val     string                           `json:"val"`     // decimal
	G       int                              `json:"g"`       // race: creator
	Err     bool                             `json:"err"`     // the call returned an error
	Errs    string                           `json:"errs"`    // its text
	N       int                              `json:"n"`       // index of the handle the call returned (0 = none)
	Ex      bool                             `json:"ex"`      // its Existing()
	Rb      []string                         `json:"rb"`      // set: contents of the limit file(s) read back from cgroupfs
	Self    map[string][]string              `json:"self"`    // hierarchy -> group of the DRIVER itself (nobody asked to move it)
	Thr     map[string]map[string][][]string `json:"thr"`     // hierarchy -> helper -> distinct groups of all its threads
	Ten     []tenant                         `json:"ten"`     // per group: helpers with at least one task in its tasks file
	Nthr    map[string]int                   `json:"nthr"`    // helper -> number of threads
	Pcur    []limit                          `json:"pcur"`    // pids.current of every group (cases with the pids controller)
	Lims    []limit                          `json:"lims"`    // every limit file of every group of the case, read back after the call
	Allowed map[string]string                `json:"allowed"` // helper -> Cpus_allowed_list (cases with the cpuset controller)
	Dirs    map[string][][]string            `json:"dirs"`    // group directories after the call
	Mem     map[string]map[string][]string   `json:"mem"`     // hierarchy -> helper -> group after the call
}

// limit is the content of one limit file of one group
type limit struct {
	Path []string `json:"path"`
	Kind string   `json:"kind"` // mem | cpuq | cpup | pids | cpus
	Val  string   `json:"val"`
}

var limitFiles = map[string][][2]string{
	"memory": {{"mem", "memory.limit_in_bytes"}},
	"cpu":    {{"cpuq", "cpu.cfs_quota_us"}, {"cpup", "cpu.cfs_period_us"}},
	"pids":   {{"pids", "pids.max"}},
	"cpuset": {{"cpus", "cpuset.cpus"}},
}

// cpu lists handed to SetCPUSet (strict subsets of this host's 0-15), by the number in the case
var cpuLists = map[int]string{1: "0", 2: "0-1", 3: "2-3"}

// limits reads every limit file of every group directory below the case's base (kernel truth)
func (l *layout) limits(dirs map[string][][]string) []limit {
	out := []limit{}
	if l.ver != 1 {
		return out
	}
	for _, c := range l.ctls {
		for _, d := range dirs[c] {
			for _, f := range limitFiles[c] {
				p := filepath.Join(append([]string{l.root(c)}, d...)...)
				out = append(out, limit{Path: append([]string{}, d...), Kind: f[0], Val: readTrim(filepath.Join(p, f[1]))})
			}
		}
	}
	return out
}

func cpusAllowed(pid int) string {
	b, err := os.ReadFile(fmt.Sprintf("/proc/%d/status", pid))
	if err != nil {
		return "?"
	}
	for _, line := range strings.Split(string(b), "\n") {
		if v, ok := strings.CutPrefix(line, "Cpus_allowed_list:"); ok {
			return strings.TrimSpace(v)
		}
	}
	return "?"
}

type trace struct {
	Id   int      `json:"id"`
	Kind string   `json:"kind"` // hist | race
	Ver  int      `json:"ver"`
	Ctls []string `json:"ctls"`
	Pids []string `json:"pids"`
	Ev   []event  `json:"ev"`
	Left int      `json:"left"` // directories of the case that the harness had to remove at the end (information)
}

func setType(ver int) {
	if ver == 2 {
		cgroup.DetectedCgroupType = cgroup.TypeV2
	} else {
		cgroup.DetectedCgroupType = cgroup.TypeV1
	}
}

func readTrim(p string) string {
	b, err := os.ReadFile(p)
	if err != nil {
		return "!" + err.Error()
	}
	return strings.TrimSpace(string(b))
}

// run <cases.ndjson> <traces.ndjson> <nonce>
func runMain(args []string) error {
	if len(args) != 3 {
		return errors.New("usage: run cases.ndjson traces.ndjson nonce")
	}
	cases, err := hx.ReadLines[kase](args[0])
	if err != nil {
		return err
	}
	out, err := hx.NewLineWriter(args[1])
	if err != nil {
		return err
	}
	defer out.Close()
	startPool()
	defer drainPool()
	for _, c := range cases {
		tr, err := runCase(c, args[2])
		if err != nil {
			return fmt.Errorf("case %d: %w", c.Id, err)
		}
		out.Write(tr)
	}
	return nil
}

func newLayout(ver int, ctls []string, nonce string, id int) *layout {
	l := &layout{ver: ver, ctls: ctls, prefix: fmt.Sprintf("verif-c20-%s-%d", nonce, id)}
	if ver == 2 {
		l.ctls = []string{"u"}
	}
	return l
}

func runCase(c kase, nonce string) (tr *trace, err error) {
	l := newLayout(c.Ver, c.Ctls, nonce, c.Id)
	setType(c.Ver)
	tr = &trace{Id: c.Id, Kind: "hist", Ver: c.Ver, Ctls: l.ctls, Pids: []string{"p1", "p2"}, Ev: []event{}}
	tr0 := tr
	helpers := map[string]*helper{}
	defer func() {
		cgroup.SetRandomNameForVerif(nil)
		for _, h := range helpers {
			h.stop()
		}
		for _, d := range l.dirs() {
			tr0.Left += len(d)
		}
		l.cleanup()
	}()
	for _, n := range tr.Pids {
		h, err := getIdle()
		if err != nil {
			return nil, err
		}
		helpers[n] = h
	}
	handles := []cgroup.Cgroup{nil} // 1-based like the specification; index 1 = base handle
	snap := func(ev *event) {
		ev.Dirs = l.dirs()
		ev.Lims = l.limits(ev.Dirs)
		ev.Allowed = map[string]string{}
		for n, h := range helpers {
			ev.Allowed[n] = cpusAllowed(h.cmd.Process.Pid)
		}
		ev.Mem = map[string]map[string][]string{}
		ev.Thr = map[string]map[string][][]string{}
		for _, c := range l.ctls {
			ev.Mem[c] = map[string][]string{}
			ev.Thr[c] = map[string][][]string{}
		}
		ev.Nthr = map[string]int{}
		ev.Pcur = []limit{}
		// thread counts and pids.current belong together: repeat until no helper changed its thread count
		for try := 0; try < 6; try++ {
			before := map[string]int{}
			for n, h := range helpers {
				before[n] = len(tids(h.cmd.Process.Pid))
			}
			ev.Pcur = ev.Pcur[:0]
			for _, c := range l.ctls {
				if c != "pids" {
					continue
				}
				for _, d := range ev.Dirs[c] {
					ev.Pcur = append(ev.Pcur, limit{Path: append([]string{}, d...), Kind: "pcur",
						Val: readTrim(filepath.Join(append(append([]string{l.root(c)}, d...), "pids.current")...))})
				}
			}
			stable := true
			for n, h := range helpers {
				ev.Nthr[n] = len(tids(h.cmd.Process.Pid))
				stable = stable && ev.Nthr[n] == before[n]
			}
			if stable {
				break
			}
		}
		for n, h := range helpers {
			lead, thr := l.where(h.cmd.Process.Pid)
			for c, p := range lead {
				ev.Mem[c][n] = p
			}
			for c, ps := range thr {
				ev.Thr[c][n] = ps
			}
		}
		ev.Ten = l.tenants(ev.Dirs, helpers)
		ev.Self = l.place("/proc/self/cgroup")
		l.rescue(ev.Self)
	}
	created := func(ev *event, cg cgroup.Cgroup, err error) {
		ev.Err, ev.Errs = err != nil, errText(err)
		if err == nil && cg != nil {
			handles = append(handles, cg)
			ev.N, ev.Ex = len(handles)-1, cg.Existing()
		}
	}
	for _, o := range c.Ops {
		ev := event{Op: o.Op, H: o.H, Name: o.Name, Names: o.Names, Path: o.Path, Pid: o.Pid, Kind: o.Kind,
			Val: fmt.Sprint(o.Val), Rb: []string{}}
		if ev.Names == nil {
			ev.Names = []string{}
		}
		if ev.Path == nil {
			ev.Path = []string{}
		}
		var h cgroup.Cgroup
		if o.Op != "top" && o.Op != "open" && o.Op != "mk" {
			if o.H < 1 || o.H >= len(handles) {
				// an earlier call did not return the handle the history counts on (that call's
				// event is already on record): the rest of the history cannot be performed
				return tr, nil
			}
			h = handles[o.H]
		}
		switch o.Op {
		case "mk":
			// an administrator makes the group directory in some hierarchies, outside the library
			for _, ctl := range o.Names {
				if err := os.Mkdir(filepath.Join(append([]string{l.root(ctl)}, o.Path...)...), 0755); err != nil {
					ev.Err, ev.Errs = true, err.Error()
				}
			}
		case "top":
			cg, err := cgroup.New(l.apiPrefix(), l.controllers())
			created(&ev, cg, err)
		case "open":
			cg, err := cgroup.OpenExisting(filepath.Join(append([]string{l.apiPrefix()}, o.Path...)...), l.controllers())
			created(&ev, cg, err)
		case "new":
			cg, err := h.New(o.Name)
			created(&ev, cg, err)
		case "nest":
			cg, err := h.Nest(o.Name)
			created(&ev, cg, err)
		case "random":
			i := 0
			cgroup.SetRandomNameForVerif(func() string {
				if i < len(o.Names) {
					i++
					return o.Names[i-1]
				}
				return noName // the forced names are used up: make the call fail rather than loop
			})
			cg, err := h.Random("*")
			cgroup.SetRandomNameForVerif(nil)
			created(&ev, cg, err)
		case "add":
			err := h.AddProc(helpers[o.Pid].cmd.Process.Pid)
			ev.Err, ev.Errs = err != nil, errText(err)
		case "set":
			var err error
			var files []string
			switch o.Kind {
			case "pids":
				err = h.SetProcLimit(uint64(o.Val))
				files = []string{"pids/pids.max"}
			case "mem":
				err = h.SetMemoryLimit(uint64(o.Val))
				files = []string{"memory/memory.limit_in_bytes"}
			case "cpu":
				err = h.SetCPUBandwidth(uint64(o.Val), 100000)
				files = []string{"cpu/cpu.cfs_quota_us", "cpu/cpu.cfs_period_us"}
			case "cpus":
				ev.Val = cpuLists[o.Val]
				err = h.SetCPUSet([]byte(ev.Val))
				files = []string{"cpuset/cpuset.cpus"}
			}
			ev.Err, ev.Errs = err != nil, errText(err)
			rel := handlePath(l, h)
			for _, f := range files {
				ctl, name, _ := strings.Cut(f, "/")
				ev.Rb = append(ev.Rb, readTrim(filepath.Join(l.root(ctl), rel, name)))
			}
		case "destroy":
			err := h.Destroy()
			ev.Err, ev.Errs = err != nil, errText(err)
		default:
			return nil, fmt.Errorf("unknown op %q", o.Op)
		}
		snap(&ev)
		tr.Ev = append(tr.Ev, ev)
	}
	return tr, nil
}

// handlePath: path of a handle relative to the case's base, from its String() ("v1(prefix)[..]" / "v2(path)[..]")
func handlePath(l *layout, h cgroup.Cgroup) string {
	s := fmt.Sprint(h)
	a, b := strings.Index(s, "("), strings.Index(s, ")")
	if a < 0 || b < a {
		return ""
	}
	p := s[a+1 : b]
	if i := strings.Index(p, l.prefix); i >= 0 {
		return strings.TrimPrefix(p[i+len(l.prefix):], "/")
	}
	return ""
}

// sweep <nonce>: remove whatever a crashed run left behind (only directories carrying the nonce)
func sweepMain(args []string) error {
	if len(args) != 1 || len(args[0]) < 4 {
		return errors.New("usage: sweep nonce")
	}
	pat := "verif-c20-" + args[0] + "*"
	var roots []string
	ents, _ := os.ReadDir(cgRoot)
	for _, e := range ents {
		m, _ := filepath.Glob(filepath.Join(cgRoot, e.Name(), pat))
		roots = append(roots, m...)
	}
	for attempt := 0; attempt < 20 && len(roots) > 0; attempt++ {
		var left []string
		for _, r := range roots {
			var dirs []string
			filepath.WalkDir(r, func(p string, d os.DirEntry, err error) error {
				if err == nil && d.IsDir() {
					dirs = append(dirs, p)
				}
				return nil
			})
			sort.Slice(dirs, func(i, j int) bool { return len(dirs[i]) > len(dirs[j]) })
			for _, d := range dirs {
				syscall.Rmdir(d)
			}
			if _, err := os.Stat(r); err == nil {
				left = append(left, r)
			}
		}
		roots = left
		time.Sleep(20 * time.Millisecond)
	}
	if len(roots) > 0 {
		return fmt.Errorf("could not remove %v", roots)
	}
	return nil
}
