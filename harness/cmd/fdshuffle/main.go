// The helper arranges its own descriptor numbers: the Go runtime must not keep descriptors of
// its own (1.25 keeps two cgroup files open for GOMAXPROCS updates unless told otherwise).
//
//go:debug containermaxprocs=0
//go:debug updatemaxprocs=0
package main

// C06 driver (family fdshuffle): descriptor table of the started program.
//
//	fdshuffle run       <cases> <probe> <workroot> <obs> <traces> <workers> [cgdir]
//	    one re-exec'ed helper process per case (optionally under strace); joins the helper's
//	    report with the probe's report and the strace log into observation / trace lines
//	fdshuffle helper    <case-json> <probe> <workdir> [cgdir]
//	    arranges its own descriptor numbers as the case says and calls the real
//	    forkexec.Runner.Start twice
//	fdshuffle container <ctcases> <probe> <workroot> <ctobs> [cgdir]
//	    container.Environment.Execve with Files / ExecFile / CgroupFD, twice per case
//
// No oracle here: the lines say what was arranged and what the probe saw; TLC judges them
// (spec/FdShuffle_Judge.tla, spec/FdShuffle_Trace.tla).

import (
	"github.com/criyle/go-sandbox/container"

	"verifharness/hx"
)

func main() {
	// the driver re-executes itself as the container init process
	if err := container.Init(); err != nil {
		panic(err)
	}
	hx.Register("run", runMain)
	hx.Register("helper", helperMain)
	hx.Register("container", containerMain)
	hx.Main()
}

// Cfg is one configuration of spec/FdConfig.tla (ConfigSet) plus run directions added by
// the check (id, strace, cg).
type Cfg struct {
	Files []int `json:"files"`
	Exec  int   `json:"exec"`
	Par   int   `json:"par"`
	Pipe  int   `json:"pipe"`
	Vfork bool  `json:"vfork"`
}

type Case struct {
	Cfg
	ID     int  `json:"id"`
	Strace bool `json:"strace"`
	Cg     int  `json:"cg"` // number at which a cgroup-v2 directory descriptor is passed as CgroupFd (0 = none)
}

// FdEnt is one open descriptor: number, identity of the open file, close-on-exec flag.
type FdEnt struct {
	Fd int    `json:"fd"`
	ID string `json:"id"`
	Cx int    `json:"cx"`
}

// StartObs is what one Runner.Start / Environment.Execve call showed.
type StartObs struct {
	Rbx int     `json:"rbx"` // ExecFile before the call
	Rbf []int   `json:"rbf"` // Files before the call
	Rbc int     `json:"rbc"` // CgroupFd before the call
	Rax int     `json:"rax"`
	Raf []int   `json:"raf"`
	Rac int     `json:"rac"`
	Err string  `json:"err"` // error returned by the call ("" = none)
	Ran int     `json:"ran"` // 1 if the probe reported
	Got []FdEnt `json:"got"` // the probe's descriptor table
	Pid int     `json:"pid"`
	Sta int     `json:"sta"` // wait status of the program (-1 unknown)
}
