package main

import (
	"bufio"
	"context"
	"encoding/json"
	"fmt"
	"os"
	"os/exec"
	"path/filepath"
	"regexp"
	"strconv"
	"strings"
	"sync"
	"time"

	"verifharness/hx"
)

// Obs is one observation line (direct forkexec case) for FdShuffle_Judge.
type Obs struct {
	ID    int        `json:"id"`
	Cfg   Cfg        `json:"cfg"`
	Cg    int        `json:"cg"`
	Setup string     `json:"setup"`
	Pre   []FdEnt    `json:"pre"`
	Sock  []int      `json:"sock"`
	St    []StartObs `json:"st"`
}

// Ev is one system call of the launch as strace showed it.
type Ev struct {
	Op string `json:"op"`
	A  int    `json:"a"`
	B  int    `json:"b"`
	C  int    `json:"c"`
	R  int    `json:"r"`
}

// Trace is one implementation-layer trace (one Start) for FdShuffle_Trace.
type Trace struct {
	ID    int     `json:"id"`
	Start int     `json:"start"`
	Cfg   Cfg     `json:"cfg"`
	Pre   []FdEnt `json:"pre"`
	Cexec int     `json:"cexec"` // Runner.ExecFile when this Start was called
	Ev    []Ev    `json:"ev"`
}

// ProbeReport is one line written by probes/fdshuffle.c.
type ProbeReport struct {
	Pid int `json:"pid"`
	Fds []struct {
		Fd   int    `json:"fd"`
		Dev  string `json:"dev"`
		Ino  string `json:"ino"`
		Type int    `json:"type"`
		Cx   int    `json:"cx"`
		Pos  int64  `json:"pos"`
	} `json:"fds"`
}

// table translates a probe report into identities using the key -> id list of the arranger.
func (p *ProbeReport) table(ids map[string]string) []FdEnt {
	out := []FdEnt{}
	for _, f := range p.Fds {
		k := f.Dev + ":" + f.Ino + ":" + strconv.FormatInt(f.Pos, 10)
		id, ok := ids[k]
		if !ok {
			id = "?" + k
		}
		out = append(out, FdEnt{f.Fd, id, f.Cx})
	}
	return out
}

const straceSet = "trace=socketpair,clone,clone3,dup3,fcntl,close,execve,execveat"

func runMain(args []string) error {
	if len(args) < 6 {
		return fmt.Errorf("run: want <cases> <probe> <workroot> <obs> <traces> <workers> [cgdir]")
	}
	cases, err := hx.ReadLines[Case](args[0])
	if err != nil {
		return err
	}
	probe, root := args[1], args[2]
	workers, _ := strconv.Atoi(args[5])
	if workers < 1 {
		workers = 1
	}
	cgdir := ""
	if len(args) > 6 {
		cgdir = args[6]
	}
	self, err := os.Executable()
	if err != nil {
		return err
	}
	ow, err := hx.NewLineWriter(args[3])
	if err != nil {
		return err
	}
	defer ow.Close()
	tw, err := hx.NewLineWriter(args[4])
	if err != nil {
		return err
	}
	defer tw.Close()

	obs := make([]*Obs, len(cases))
	trs := make([][]Trace, len(cases))
	var wg sync.WaitGroup
	ch := make(chan int)
	for w := 0; w < workers; w++ {
		wg.Add(1)
		go func() {
			defer wg.Done()
			for i := range ch {
				obs[i], trs[i] = runCase(self, probe, root, cgdir, cases[i])
			}
		}()
	}
	for i := range cases {
		ch <- i
	}
	close(ch)
	wg.Wait()
	for i := range cases { // deterministic order
		ow.Write(obs[i])
		for _, t := range trs[i] {
			tw.Write(t)
		}
	}
	return nil
}

func runCase(self, probe, root, cgdir string, c Case) (*Obs, []Trace) {
	o := &Obs{ID: c.ID, Cfg: c.Cfg, Cg: c.Cg, Setup: "ok", Pre: []FdEnt{}, Sock: []int{}, St: []StartObs{}}
	work := filepath.Join(root, "c"+strconv.Itoa(c.ID))
	if err := os.MkdirAll(work, 0755); err != nil {
		o.Setup = err.Error()
		return o, nil
	}
	defer os.RemoveAll(work)
	cj, _ := json.Marshal(c)
	hargs := []string{self, "helper", string(cj), probe, work}
	if c.Cg > 0 {
		hargs = append(hargs, cgdir)
	}
	straceOut := filepath.Join(work, "strace.txt")
	if c.Strace {
		hargs = append([]string{"strace", "-f", "-qq", "--seccomp-bpf", "-e", "signal=none", "-e", straceSet, "-o", straceOut}, hargs...)
	}
	ctx, cancel := context.WithTimeout(context.Background(), 60*time.Second)
	defer cancel()
	cmd := exec.CommandContext(ctx, hargs[0], hargs[1:]...)
	cmd.Env = []string{"PATH=/usr/bin:/bin", "GODEBUG=containermaxprocs=0,updatemaxprocs=0"}
	// 0/1/2 of the helper must be blocking files (a non-blocking pipe or socket makes the Go
	// runtime create an epoll descriptor at start-up)
	logPath := filepath.Join(work, "helper.log")
	logf, err := os.Create(logPath)
	if err != nil {
		o.Setup = err.Error()
		return o, nil
	}
	cmd.Stdout, cmd.Stderr = logf, logf
	err = cmd.Run()
	logf.Close()
	out, _ := os.ReadFile(logPath)
	if err != nil {
		o.Setup = fmt.Sprintf("helper: %v: %s", err, strings.TrimSpace(string(out)))
		return o, nil
	}
	var h HelperObs
	b, err := os.ReadFile(filepath.Join(work, "obs.json"))
	if err == nil {
		err = json.Unmarshal(b, &h)
	}
	if err != nil {
		o.Setup = fmt.Sprintf("helper report: %v: %s", err, strings.TrimSpace(string(out)))
		return o, nil
	}
	o.Setup, o.Pre, o.Sock, o.St = h.Setup, h.Pre, h.Sock, h.St
	ids := map[string]string{}
	for _, e := range h.IDs {
		ids[e.Key] = e.ID
	}
	reports, _ := hx.ReadLines[ProbeReport](filepath.Join(work, "report.ndjson"))
	for i := range o.St {
		for j := range reports {
			if reports[j].Pid == o.St[i].Pid && o.St[i].Err == "" {
				o.St[i].Ran = 1
				o.St[i].Got = reports[j].table(ids)
			}
		}
	}
	if !c.Strace || o.Setup != "ok" {
		return o, nil
	}
	evs, err := parseStrace(straceOut, o.St)
	if err != nil {
		o.Setup = "strace: " + err.Error()
		return o, nil
	}
	var trs []Trace
	for i := range o.St {
		trs = append(trs, Trace{ID: c.ID, Start: i + 1, Cfg: c.Cfg, Pre: o.Pre, Cexec: o.St[i].Rbx, Ev: evs[i]})
	}
	return o, trs
}

var (
	reLine    = regexp.MustCompile(`^(\d+)\s+(.*)$`)
	reCall    = regexp.MustCompile(`^(\w+)\((.*)\)\s+=\s+(-?\d+)`)
	reResumed = regexp.MustCompile(`^<\.\.\. (\w+) resumed>(.*)$`)
	rePair    = regexp.MustCompile(`\[(\d+), (\d+)\]`)
)

// parseStrace turns the strace log of one helper run into one event list per Start:
// the k-th socketpair of the helper, followed by the calls of the k-th child up to and
// including its (first successful or last) exec.
func parseStrace(path string, st []StartObs) ([][]Ev, error) {
	f, err := os.Open(path)
	if err != nil {
		return nil, err
	}
	defer f.Close()
	type call struct {
		pid  int
		name string
		args string
		ret  int
	}
	var calls []call
	pending := map[int]string{}
	sc := bufio.NewScanner(f)
	sc.Buffer(make([]byte, 1<<20), 1<<20)
	for sc.Scan() {
		m := reLine.FindStringSubmatch(sc.Text())
		if m == nil {
			continue
		}
		pid, _ := strconv.Atoi(m[1])
		rest := m[2]
		if strings.HasSuffix(rest, "<unfinished ...>") {
			pending[pid] = strings.TrimSuffix(rest, " <unfinished ...>")
			continue
		}
		if r := reResumed.FindStringSubmatch(rest); r != nil {
			rest = pending[pid] + r[2]
			delete(pending, pid)
		}
		cm := reCall.FindStringSubmatch(rest)
		if cm == nil {
			continue
		}
		ret, _ := strconv.Atoi(cm[3])
		calls = append(calls, call{pid, cm[1], cm[2], ret})
	}
	res := make([][]Ev, len(st))
	// parent side: socketpair calls in order; the k-th process (not thread) creation is the
	// k-th child (Start returns no pid when the launch fails)
	k := 0
	var kids []int
	for _, c := range calls {
		if (c.name == "clone" || c.name == "clone3") && !strings.Contains(c.args, "CLONE_THREAD") {
			kids = append(kids, c.ret)
		}
		if c.name == "socketpair" && k < len(st) {
			p := rePair.FindStringSubmatch(c.args)
			if p == nil {
				return nil, fmt.Errorf("socketpair line without numbers: %s", c.args)
			}
			a, _ := strconv.Atoi(p[1])
			b, _ := strconv.Atoi(p[2])
			cx := 0
			if strings.Contains(c.args, "SOCK_CLOEXEC") {
				cx = 1
			}
			res[k] = append(res[k], Ev{"socketpair", a, b, cx, c.ret})
			k++
		}
	}
	if k != len(st) {
		return nil, fmt.Errorf("%d socketpair calls for %d starts", k, len(st))
	}
	atoi := func(s string) int {
		n, err := strconv.Atoi(strings.TrimSpace(s))
		if err != nil {
			return -999
		}
		return n
	}
	for i := range st {
		if i >= len(kids) || kids[i] <= 0 { // clone failed or Start returned before forking
			continue
		}
		done := false
		for _, c := range calls {
			if c.pid != kids[i] || done {
				continue
			}
			a := strings.Split(c.args, ", ")
			switch c.name {
			case "close":
				res[i] = append(res[i], Ev{"close", atoi(a[0]), 0, 0, c.ret})
			case "dup3":
				if len(a) < 3 {
					return nil, fmt.Errorf("dup3 args: %s", c.args)
				}
				cx := 0
				if strings.Contains(a[2], "O_CLOEXEC") {
					cx = 1
				}
				res[i] = append(res[i], Ev{"dup3", atoi(a[0]), atoi(a[1]), cx, c.ret})
			case "fcntl":
				if len(a) < 2 {
					return nil, fmt.Errorf("fcntl args: %s", c.args)
				}
				cmd, arg := 0, 0
				if a[1] != "F_SETFD" {
					cmd = 1
				}
				if len(a) > 2 && a[2] != "0" {
					arg = 1
				}
				res[i] = append(res[i], Ev{"fcntl", atoi(a[0]), cmd, arg, c.ret})
			case "execveat":
				res[i] = append(res[i], Ev{"exec", atoi(a[0]), 0, 0, c.ret})
				done = c.ret == 0
			case "execve":
				res[i] = append(res[i], Ev{"exec", -1, 0, 0, c.ret})
				done = c.ret == 0
			}
		}
	}
	return res, nil
}
