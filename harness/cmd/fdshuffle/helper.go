package main

import (
	"encoding/json"
	"fmt"
	"runtime/debug"
	"sort"
	"strconv"
	"syscall"

	"github.com/criyle/go-sandbox/pkg/forkexec"
	"golang.org/x/sys/unix"
)

// The helper uses raw system calls only (no os.File): the Go runtime must not create
// descriptors (epoll, eventfd) behind its back while the table is arranged.

const (
	outFd   = 60 // the helper's own report
	stageFd = 40 // staging area while the low numbers are arranged
	scanMax = 64
)

// IDEnt names an open file by what fstat/lseek show.
type IDEnt struct {
	Key string `json:"key"` // dev:ino:offset
	ID  string `json:"id"`
}

// HelperObs is the helper's report (obs.json in the case directory).
type HelperObs struct {
	Setup string     `json:"setup"` // "ok" or why the case could not be arranged
	Pre   []FdEnt    `json:"pre"`   // the helper's table right before the first Start
	Sock  []int      `json:"sock"`  // the two lowest free numbers = where socketpair will land
	IDs   []IDEnt    `json:"ids"`
	St    []StartObs `json:"st"`
	Inh   []int      `json:"inh"` // descriptors >= 3 found open when the helper started
}

func identKey(fd int) (string, error) {
	var st unix.Stat_t
	if err := unix.Fstat(fd, &st); err != nil {
		return "", err
	}
	pos, err := unix.Seek(fd, 0, 1)
	if err != nil {
		pos = -1
	}
	return strconv.FormatUint(uint64(st.Dev), 10) + ":" + strconv.FormatUint(st.Ino, 10) + ":" + strconv.FormatInt(pos, 10), nil
}

func isOpen(fd int) (bool, int) {
	fl, err := unix.FcntlInt(uintptr(fd), unix.F_GETFD, 0)
	if err != nil {
		return false, 0
	}
	return true, fl & unix.FD_CLOEXEC
}

// moveTo makes `to` refer to the open file of `from` (close-on-exec) and closes `from`.
func moveTo(from, to int) error {
	if from == to {
		_, err := unix.FcntlInt(uintptr(from), unix.F_SETFD, unix.FD_CLOEXEC)
		return err
	}
	if err := unix.Dup3(from, to, unix.O_CLOEXEC); err != nil {
		return err
	}
	return unix.Close(from)
}

func writeAll(fd int, b []byte) {
	for len(b) > 0 {
		n, err := unix.Write(fd, b)
		if err != nil || n <= 0 {
			return
		}
		b = b[n:]
	}
}

func snapFiles(f []uintptr) []int {
	r := make([]int, len(f))
	for i, v := range f {
		r[i] = int(v) // ^uintptr(0) -> -1
	}
	return r
}

func helperMain(args []string) error {
	if len(args) < 3 {
		return fmt.Errorf("helper: want <case-json> <probe> <workdir> [cgdir]")
	}
	debug.SetGCPercent(-1) // no background GC work (its timers would create an epoll descriptor)
	var c Case
	if err := json.Unmarshal([]byte(args[0]), &c); err != nil {
		return err
	}
	probe, work := args[1], args[2]
	cgdir := ""
	if len(args) > 3 {
		cgdir = args[3]
	}
	o := HelperObs{Setup: "ok", Pre: []FdEnt{}, Sock: []int{}, IDs: []IDEnt{}, St: []StartObs{}, Inh: []int{}}

	fd, err := unix.Open(work+"/obs.json", unix.O_WRONLY|unix.O_CREAT|unix.O_TRUNC|unix.O_CLOEXEC, 0644)
	if err != nil {
		return err
	}
	for n := 3; n < scanMax; n++ {
		if ok, _ := isOpen(n); ok && n != fd {
			o.Inh = append(o.Inh, n)
		}
	}
	if err := moveTo(fd, outFd); err != nil {
		return err
	}
	finish := func() error {
		b, err := json.Marshal(&o)
		if err != nil {
			return err
		}
		writeAll(outFd, append(b, '\n'))
		return nil
	}
	bad := func(f string, a ...any) error {
		o.Setup = fmt.Sprintf(f, a...)
		return finish()
	}
	if len(o.Inh) > 0 {
		// e.g. the runtime's epoll descriptor (created when 0/1/2 are non-blocking): it cannot
		// be moved, and closing it kills the runtime
		return bad("descriptors %v open at start", o.Inh)
	}

	// ---- stage every file the case needs at numbers >= stageFd
	ids := map[string]string{}
	next := stageFd
	stageFile := func(path string, flags int, id string, off int64) (int, error) {
		fd, err := unix.Open(path, flags|unix.O_CLOEXEC, 0644)
		if err != nil {
			return 0, fmt.Errorf("open %s: %v", path, err)
		}
		if off > 0 {
			writeAll(fd, []byte("verif-c06-source\n"))
			if _, err := unix.Seek(fd, off, 0); err != nil {
				return 0, err
			}
		}
		at := next
		next++
		if err := moveTo(fd, at); err != nil {
			return 0, fmt.Errorf("stage %s: %v", path, err)
		}
		k, err := identKey(at)
		if err != nil {
			return 0, err
		}
		ids[k] = id
		o.IDs = append(o.IDs, IDEnt{k, id})
		return at, nil
	}
	nullAt, err := stageFile("/dev/null", unix.O_RDWR, "null", 0)
	if err != nil {
		return bad("%v", err)
	}
	exeAt := 0
	if c.Exec > 0 {
		if exeAt, err = stageFile(probe, unix.O_RDONLY, "exe", 0); err != nil {
			return bad("%v", err)
		}
	}
	cgAt := 0
	if c.Cg > 0 {
		if cgAt, err = stageFile(cgdir, unix.O_RDONLY|unix.O_DIRECTORY, "cg", 0); err != nil {
			return bad("%v", err)
		}
	}
	srcAt := map[int]int{}
	for _, v := range c.Files {
		if v < 0 || (c.Exec > 0 && v == c.Exec) {
			continue
		}
		if _, ok := srcAt[v]; ok {
			continue
		}
		at, err := stageFile(work+"/s"+strconv.Itoa(v), unix.O_RDWR|unix.O_CREAT|unix.O_TRUNC, "s"+strconv.Itoa(v), int64(1000+v))
		if err != nil {
			return bad("%v", err)
		}
		srcAt[v] = at
	}

	// ---- arrange the low numbers: every number below p[1] except p[0] is occupied, all close-on-exec
	for n := 0; n < stageFd; n++ {
		unix.Close(n)
	}
	place := func(from, to int) error {
		if to >= stageFd || to < 0 {
			return fmt.Errorf("number %d out of range", to)
		}
		return unix.Dup3(from, to, unix.O_CLOEXEC)
	}
	top := c.Pipe
	for v := range srcAt {
		if v >= top {
			top = v + 1
		}
	}
	if c.Exec >= top {
		top = c.Exec + 1
	}
	if c.Cg >= top {
		top = c.Cg + 1
	}
	for n := 0; n < top; n++ {
		var err error
		switch {
		case n == c.Par || n == c.Pipe:
			continue
		case c.Exec > 0 && n == c.Exec:
			err = place(exeAt, n)
		case c.Cg > 0 && n == c.Cg:
			err = place(cgAt, n)
		default:
			if at, ok := srcAt[n]; ok {
				err = place(at, n)
			} else if n < c.Pipe {
				err = place(nullAt, n)
			}
		}
		if err != nil {
			return bad("place %d: %v", n, err)
		}
	}
	for n := stageFd; n < next; n++ {
		unix.Close(n)
	}

	// ---- what the table looks like now (kernel's word, not the plan's)
	free := []int{}
	for n := 0; n < scanMax; n++ {
		ok, cx := isOpen(n)
		if !ok {
			if len(free) < 2 {
				free = append(free, n)
			}
			continue
		}
		k, err := identKey(n)
		if err != nil {
			return bad("fstat %d: %v", n, err)
		}
		id, known := ids[k]
		if n == outFd {
			id, known = "out", true
		}
		if !known {
			id = "?" + k
		}
		o.Pre = append(o.Pre, FdEnt{n, id, cx})
	}
	o.Sock = free

	// ---- the real thing, twice, same Runner value
	files := make([]uintptr, len(c.Files))
	for i, v := range c.Files {
		if v < 0 {
			files[i] = ^uintptr(0)
		} else {
			files[i] = uintptr(v)
		}
	}
	r := &forkexec.Runner{
		Args:     []string{probe, work + "/report.ndjson"},
		Env:      []string{},
		ExecFile: uintptr(c.Exec),
		Files:    files,
		CgroupFd: uintptr(c.Cg),
	}
	if !c.Vfork {
		r.SyncFunc = func(int) error { return nil }
	}
	for s := 0; s < 2; s++ {
		so := StartObs{Rbx: int(r.ExecFile), Rbf: snapFiles(r.Files), Rbc: int(r.CgroupFd), Got: []FdEnt{}, Sta: -1}
		pid, err := r.Start()
		so.Rax, so.Raf, so.Rac = int(r.ExecFile), snapFiles(r.Files), int(r.CgroupFd)
		so.Pid = pid
		if err != nil {
			so.Err = err.Error()
		} else {
			var ws syscall.WaitStatus
			for {
				_, werr := syscall.Wait4(pid, &ws, 0, nil)
				if werr != syscall.EINTR {
					break
				}
			}
			so.Sta = int(ws)
		}
		o.St = append(o.St, so)
	}
	sort.Slice(o.IDs, func(i, j int) bool { return o.IDs[i].ID < o.IDs[j].ID })
	return finish()
}
