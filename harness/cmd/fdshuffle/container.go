package main

import (
	"context"
	"fmt"
	"os"
	"path/filepath"
	"strconv"
	"time"

	"github.com/criyle/go-sandbox/container"
	"github.com/criyle/go-sandbox/pkg/mount"
	"github.com/criyle/go-sandbox/runner"
	"golang.org/x/sys/unix"

	"verifharness/hx"
)

// CtCase is one container case of FdShuffle_Gen (CtCases): the caller's list is given as
// indices of distinct host files (the numbers inside the container init are chosen by the
// kernel when the descriptors arrive).
type CtCfg struct {
	Files  []int `json:"files"`
	FdExec bool  `json:"fdexec"`
	Cg     bool  `json:"cg"`
	After  bool  `json:"after"` // SyncAfterExec
}

type CtCase struct {
	CtCfg
	ID int `json:"id"`
}

// CtObs is one observation line (container case) for FdShuffle_Judge.
type CtObs struct {
	ID    int        `json:"id"`
	Ct    CtCfg      `json:"ct"`
	Setup string     `json:"setup"`
	St    []StartObs `json:"st"`
}

func uints(f []uintptr) []int {
	r := make([]int, len(f))
	for i, v := range f {
		r[i] = int(v)
	}
	return r
}

func containerMain(args []string) error {
	if len(args) < 4 {
		return fmt.Errorf("container: want <ctcases> <probe> <workroot> <ctobs> [cgdir]")
	}
	cases, err := hx.ReadLines[CtCase](args[0])
	if err != nil {
		return err
	}
	probe, root := args[1], args[2]
	cgdir := ""
	if len(args) > 4 {
		cgdir = args[4]
	}
	ow, err := hx.NewLineWriter(args[3])
	if err != nil {
		return err
	}
	defer ow.Close()

	croot := filepath.Join(root, "ctroot")
	hostw := filepath.Join(root, "ctw")
	for _, d := range []string{croot, hostw} {
		if err := os.MkdirAll(d, 0777); err != nil {
			return err
		}
	}
	os.Chmod(hostw, 0777)
	report := filepath.Join(hostw, "report.ndjson")

	// distinct host files; identity = dev:ino:offset as for the direct cases
	ids := map[string]string{}
	nsrc := 0
	for _, c := range cases {
		for _, k := range c.Files {
			if k > nsrc {
				nsrc = k
			}
		}
	}
	src := make([]int, nsrc+1)
	for k := 1; k <= nsrc; k++ {
		fd, err := unix.Open(filepath.Join(root, "cs"+strconv.Itoa(k)), unix.O_RDWR|unix.O_CREAT|unix.O_TRUNC|unix.O_CLOEXEC, 0644)
		if err != nil {
			return err
		}
		writeAll(fd, []byte("verif-c06-source\n"))
		unix.Seek(fd, int64(1000+k), 0)
		key, err := identKey(fd)
		if err != nil {
			return err
		}
		ids[key] = "s" + strconv.Itoa(k)
		src[k] = fd
	}
	exeFd, err := unix.Open(probe, unix.O_RDONLY|unix.O_CLOEXEC, 0)
	if err != nil {
		return err
	}
	if key, err := identKey(exeFd); err == nil {
		ids[key] = "exe"
	}
	cgFd := -1
	if cgdir != "" {
		if cgFd, err = unix.Open(cgdir, unix.O_RDONLY|unix.O_DIRECTORY|unix.O_CLOEXEC, 0); err != nil {
			return err
		}
		if key, err := identKey(cgFd); err == nil {
			ids[key] = "cg"
		}
	}

	b := &container.Builder{
		Root: croot,
		Mounts: mount.NewDefaultBuilder().
			WithBind(filepath.Dir(probe), "probe", true).
			WithBind(hostw, "w", false).
			WithTmpfs("tmp", "").
			FilterNotExist().Mounts,
	}
	// Build pings the new init with a 3 s deadline; on a loaded machine the init process may not
	// be up by then, so try again a few times before giving up
	var env container.Environment
	for try := 0; try < 6; try++ {
		if env, err = b.Build(); err == nil {
			break
		}
		time.Sleep(time.Duration(try+1) * 500 * time.Millisecond)
	}
	if err != nil {
		return fmt.Errorf("container build: %w", err)
	}
	defer env.Destroy()

	countLines := func() []ProbeReport {
		r, _ := hx.ReadLines[ProbeReport](report)
		return r
	}
	for _, c := range cases {
		o := CtObs{ID: c.ID, Ct: c.CtCfg, Setup: "ok", St: []StartObs{}}
		if c.Cg && cgFd < 0 {
			o.Setup = "no cgroup directory"
			ow.Write(o)
			continue
		}
		p := container.ExecveParam{
			Args:          []string{"/probe/" + filepath.Base(probe), "/w/report.ndjson"},
			Env:           []string{},
			Files:         make([]uintptr, len(c.Files)),
			SyncAfterExec: c.After,
		}
		for i, k := range c.Files {
			p.Files[i] = uintptr(src[k])
		}
		if c.FdExec {
			p.ExecFile = uintptr(exeFd)
		}
		if c.Cg {
			p.CgroupFD = uintptr(cgFd)
		}
		for s := 0; s < 2; s++ {
			so := StartObs{Rbx: int(p.ExecFile), Rbf: uints(p.Files), Rbc: int(p.CgroupFD), Got: []FdEnt{}, Sta: -1}
			before := len(countLines())
			ctx, cancel := context.WithTimeout(context.Background(), 90*time.Second)
			res := env.Execve(ctx, p)
			if ctx.Err() != nil { // machine too slow, not a verdict
				o.Setup = "Execve did not finish within 90 s"
			}
			cancel()
			so.Rax, so.Raf, so.Rac = int(p.ExecFile), uints(p.Files), int(p.CgroupFD)
			if res.Status != runner.StatusNormal {
				so.Err = fmt.Sprintf("%v %s exit=%d", res.Status, res.Error, res.ExitStatus)
			}
			so.Sta = res.ExitStatus
			after := countLines()
			if len(after) == before+1 && so.Err == "" {
				so.Ran = 1
				so.Got = after[before].table(ids)
			}
			o.St = append(o.St, so)
		}
		ow.Write(o)
	}
	return nil
}
