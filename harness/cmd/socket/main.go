package main

// C19 driver: replays TLC-generated send/receive sequences on the real
// unixsocket.Socket (raw layer) and on the real gob-framed container socket
// (NewSocketForVerif), both ends inside this process (SEQPACKET socketpair).
// No oracle here: every operation is logged with what was observed (bytes,
// identity/order/cloexec of received descriptors, credentials, error, change of
// the process's descriptor count); TLC validates the log against Socket.tla.

import (
	"bytes"
	"encoding/gob"
	"encoding/json"
	"errors"
	"fmt"
	"os"
	"path/filepath"
	"strings"
	"syscall"
	"time"

	"verifharness/hx"

	"github.com/criyle/go-sandbox/container"
	"github.com/criyle/go-sandbox/pkg/unixsocket"
	"golang.org/x/sys/unix"
)

func main() {
	// gob numbers types in the order of their first use in the process and the size of a type
	// descriptor depends on the number: fix the order so that the measured sizes are valid
	gobSizes(newValue("A", 1, nil))
	gobSizes(newValue("B", 1, nil))
	gobSizes(&MsgC{Id: 1})
	hx.Register("measure", measureMain)
	hx.Register("run", runMain)
	hx.Main()
}

// ---- message types of the framed layer (gob describes a type on its first use)

// MsgA is the first message type.
type MsgA struct {
	Id   int
	Data []byte
}

// MsgB is the second message type.
type MsgB struct {
	Id   int
	Data []byte
	Tag  string
}

// MsgC only ever travels in injected packets that a correct receiver must reject.
type MsgC struct {
	Id   int
	Data []byte
}

// sliceWriter keeps the individual Writes (gob: one per gob message)
type sliceWriter struct{ parts [][]byte }

func (w *sliceWriter) Write(p []byte) (int, error) {
	w.parts = append(w.parts, append([]byte{}, p...))
	return len(p), nil
}

// badPacket builds a packet that no gob decoder accepts, whatever it has seen before:
//
//	dup     [descriptor of C][descriptor of C][value]  -> "duplicate type received", value left unread
//	trunc   [descriptor of C][first half of the value] -> unexpected EOF (a later dup then fails at once)
//	garbage bytes that are not a gob stream
//
// The value inside carries id and the usual pattern, so that it can be recognised if it ever comes out.
func badPacket(kind string, id int) (pkt, payload []byte) {
	payload = pattern(id, 24)
	var w sliceWriter
	if err := gob.NewEncoder(&w).Encode(&MsgC{Id: id, Data: payload}); err != nil || len(w.parts) < 2 {
		panic("cannot build a bad packet")
	}
	desc, val := bytes.Join(w.parts[:len(w.parts)-1], nil), w.parts[len(w.parts)-1]
	switch kind {
	case "dup":
		return bytes.Join([][]byte{desc, desc, val}, nil), payload
	case "trunc":
		return bytes.Join([][]byte{desc, val[:len(val)/2]}, nil), payload
	default:
		return []byte{0x07, 0xff, 0x82, 0x01, 0x02, 0xfe, 0xfd, 0x00, 0x13, 0x37}, payload
	}
}

func newValue(typ string, id int, data []byte) any {
	if typ == "B" {
		return &MsgB{Id: id, Data: data, Tag: "b"}
	}
	return &MsgA{Id: id, Data: data}
}

// countWriter remembers the sizes of the individual Writes (gob: one per message)
type countWriter struct{ sizes []int }

func (c *countWriter) Write(p []byte) (int, error) {
	c.sizes = append(c.sizes, len(p))
	return len(p), nil
}

// gobSizes: bytes of type descriptors and of the value message when v is the first value
// of its type on a fresh encoder.  The value message does not depend on the encoder state.
func gobSizes(v any) (desc, val int) {
	var w countWriter
	e := gob.NewEncoder(&w)
	if err := e.Encode(v); err != nil {
		panic(err)
	}
	for _, s := range w.sizes[:len(w.sizes)-1] {
		desc += s
	}
	return desc, w.sizes[len(w.sizes)-1]
}

func pattern(id, n int) []byte {
	b := make([]byte, n)
	for i := range b {
		b[i] = byte(1 + (id*37+i*11)%255)
	}
	return b
}

// craft finds a Data length such that the gob value message is exactly val bytes long
var craftCache = map[[3]any]int{}

func craft(typ string, id, val int) (int, error) {
	k := [3]any{typ, id, val}
	if d, ok := craftCache[k]; ok {
		return d, nil
	}
	d, err := craft1(typ, id, val)
	if err == nil {
		craftCache[k] = d
	}
	return d, err
}

func craft1(typ string, id, val int) (int, error) {
	_, base := gobSizes(newValue(typ, id, nil))
	if val < base {
		return 0, fmt.Errorf("value message of %d bytes impossible for type %s (minimum %d)", val, typ, base)
	}
	d := val - base
	for iter := 0; iter < 64 && d >= 0; iter++ {
		_, got := gobSizes(newValue(typ, id, make([]byte, d)))
		if got == val {
			return d, nil
		}
		d -= got - val
	}
	return 0, fmt.Errorf("cannot craft a %s value message of exactly %d bytes", typ, val)
}

func measureMain(args []string) error {
	if len(args) != 1 {
		return errors.New("usage: measure out.json")
	}
	da, va := gobSizes(newValue("A", 1, nil))
	db, vb := gobSizes(newValue("B", 1, nil))
	out := map[string]any{
		"descA": da, "descB": db, "minValA": va, "minValB": vb,
		"cap": container.SocketBufferSizeForVerif,
	}
	b, _ := json.Marshal(out)
	return os.WriteFile(args[0], b, 0644)
}

// ---- cases and events

type op struct {
	Op   string `json:"op"`             // send | inject | recv | recvall
	Kind string `json:"kind,omitempty"` // inject: dup | trunc | garbage
	Len  int    `json:"len"`            // raw: payload bytes
	Val  int    `json:"val,omitempty"`  // gob: size of the value message to craft
	Nfds int    `json:"nfds"`           // descriptors attached
	Cred string `json:"cred,omitempty"` // none | own | forged
	Typ  string `json:"typ,omitempty"`  // gob: A | B
	Rbuf int    `json:"rbuf"`           // raw recv: caller's buffer
	Want string `json:"want"`           // gob recv: type decoded into
	Free *int   `json:"free,omitempty"` // recv: free slots left in the descriptor table (absent / -1 = plenty)
}

type kase struct {
	Id       int    `json:"id"`
	Layer    string `json:"layer"` // raw | gob
	Passcred bool   `json:"passcred"`
	Inspect  string `json:"inspect"` // when the received messages are looked at: now (default) | lag | end
	Ops      []op   `json:"ops"`
}

// event is one logged operation; fields that do not apply to the operation are omitted.
type event struct {
	Op   string `json:"op"`   // send | recv | inspect | probe
	Kind string `json:"kind"` // inject: dup | trunc | garbage
	J    int    `json:"j"`    // inspect: which delivered message (1 = first) the caller looks at now
	// send
	Id   int    `json:"id"`   // message id (1..)
	Len  int    `json:"len"`  // payload bytes (gob: of the Data field)
	Val  int    `json:"val"`  // gob: bytes of the value message
	Nfds int    `json:"nfds"` // descriptors attached: files f0, f0+1, ... (mod nfiles)
	F0   int    `json:"f0"`   //
	Typ  string `json:"typ"`  // gob: A | B
	Cred []int  `json:"cred"` // send: specified cred; recv: received cred ([] = none)
	Err  string `json:"err"`  // full error text ("" = success)
	Errc string `json:"errc"` // class of the error
	Fdd  int    `json:"fdd"`  // change of the process's open descriptor count over the call
	Rbuf int    `json:"rbuf"` // raw recv: caller's buffer
	Want string `json:"want"` // gob recv: M | X
	Free int    `json:"free"` // recv: free descriptor slots during the call (-1 = no pressure)
	// receive observations
	N      int    `json:"n"`      // bytes delivered (raw: return value; gob: len(Data))
	Mids   []int  `json:"mids"`   // ids of sent messages whose content equals the delivered bytes
	Zero1  bool   `json:"zero1"`  // raw: exactly one byte, value 0
	Rfidx  []int  `json:"rfidx"`  // file index of each descriptor handed to the caller (-1 unknown)
	Nce    int    `json:"nce"`    // how many of them carry FD_CLOEXEC
	Nsame  int    `json:"nsame"`  // how many are the sender's open file description (shared offset)
	Handed int    `json:"handed"` // descriptors returned to the caller
	Tag    string `json:"tag"`    // gob: the Tag field as decoded
	Empty  bool   `json:"empty"`  // probe: nothing is queued at the receiving end
}

type trace struct {
	Id       int     `json:"id"`
	Layer    string  `json:"layer"`
	Passcred bool    `json:"passcred"`
	Own      []int   `json:"own"`
	Forged   []int   `json:"forged"`
	Nfiles   int     `json:"nfiles"`
	Ev       []event `json:"ev"`
	EndLeak  int     `json:"endleak"` // descriptor count after closing both ends minus count before the case
}

func fdList() map[int]bool {
	d, err := os.Open("/proc/self/fd")
	if err != nil {
		panic(err)
	}
	defer d.Close()
	names, err := d.Readdirnames(-1)
	if err != nil {
		panic(err)
	}
	m := make(map[int]bool, len(names))
	for _, n := range names {
		var k int
		fmt.Sscanf(n, "%d", &k)
		if k != int(d.Fd()) {
			m[k] = true
		}
	}
	return m
}

// fdCount: number of open descriptors of this process.  Linux >= 6.2 reports it as the size of
// /proc/self/fd (one stat call); checked against a directory listing at start-up.
var statCounts bool

func fdCount() int {
	if statCounts {
		var st syscall.Stat_t
		if err := syscall.Stat("/proc/self/fd", &st); err == nil {
			return int(st.Size)
		}
	}
	return len(fdList())
}

func initFdCount() {
	var st syscall.Stat_t
	if err := syscall.Stat("/proc/self/fd", &st); err == nil && int(st.Size) == len(fdList()) && st.Size > 0 {
		statCounts = true
	}
}

// squeeze lowers the soft RLIMIT_NOFILE so that exactly k descriptor numbers below the limit are
// unused (the kernel can then install only k of the descriptors of an incoming message and flags
// the message MSG_CTRUNC); it returns the function that restores the limit.  Nothing in between
// needs a new descriptor: the receive call, and counting descriptors with stat().
func squeeze(k int) (func(), error) {
	open := fdList()
	var lim syscall.Rlimit
	if err := syscall.Getrlimit(syscall.RLIMIT_NOFILE, &lim); err != nil {
		return nil, err
	}
	unused, l := 0, 0
	for ; unused < k || open[l]; l++ { // l ends on the (k+1)-th unused number
		if !open[l] {
			unused++
		}
	}
	low := lim
	low.Cur = uint64(l)
	if err := syscall.Setrlimit(syscall.RLIMIT_NOFILE, &low); err != nil {
		return nil, err
	}
	return func() { syscall.Setrlimit(syscall.RLIMIT_NOFILE, &lim) }, nil
}

// sweep closes descriptors that were not open before the case (leaked by the code under
// test), so that a leak cannot exhaust the descriptor table of the driver
func sweep(before map[int]bool) {
	for fd := range fdList() {
		if !before[fd] {
			syscall.Close(fd)
		}
	}
}

func errClass(err error) string {
	if err == nil {
		return ""
	}
	s := err.Error()
	var ne interface{ Timeout() bool }
	switch {
	case errors.As(err, &ne) && ne.Timeout():
		return "timeout"
	case strings.Contains(s, "truncated"):
		return "trunc"
	case strings.Contains(s, "payload too large"):
		return "toolarge"
	case strings.Contains(s, "decode"):
		return "decode"
	case errors.Is(err, syscall.EINVAL):
		return "einval"
	case errors.Is(err, syscall.EMSGSIZE):
		return "emsgsize"
	case errors.Is(err, syscall.ETOOMANYREFS):
		return "toomanyrefs"
	case errors.Is(err, syscall.EPERM):
		return "eperm"
	}
	return "other"
}

// files are the regular files whose descriptors get attached to messages.  They are opened
// per case (as many as the case needs) so that counting the process's descriptors stays cheap.
type files struct {
	dir string
	f   map[int]int
	idx map[[2]uint64]int
}

func (fs *files) get(i int) int {
	if f, ok := fs.f[i]; ok {
		return f
	}
	f, err := syscall.Open(filepath.Join(fs.dir, fmt.Sprintf("f%03d", i)), syscall.O_RDWR|syscall.O_CREAT|syscall.O_CLOEXEC, 0600)
	if err != nil {
		panic(err)
	}
	var st syscall.Stat_t
	if err := syscall.Fstat(f, &st); err != nil {
		panic(err)
	}
	fs.idx[[2]uint64{uint64(st.Dev), st.Ino}] = i
	fs.f[i] = f
	return f
}

func (fs *files) look(fd int) (idx int, cloexec, same bool) {
	var st syscall.Stat_t
	if err := syscall.Fstat(fd, &st); err != nil {
		return -1, false, false
	}
	idx, ok := fs.idx[[2]uint64{uint64(st.Dev), st.Ino}]
	if !ok {
		return -1, false, false
	}
	fl, err := unix.FcntlInt(uintptr(fd), unix.F_GETFD, 0)
	cloexec = err == nil && fl&unix.FD_CLOEXEC != 0
	// same open file description <=> the file offset is shared (kcmp is not available here)
	want := int64(1000 + idx)
	if _, err := syscall.Seek(fd, want, 0); err == nil {
		if off, err := syscall.Seek(fs.get(idx), 0, 1); err == nil && off == want {
			same = true
		}
		syscall.Seek(fd, 0, 0)
	}
	return idx, cloexec, same
}

const nFiles = 254

var fileSeed int

// descriptors open before the first case (stdio, poller, output file)
var baseline map[int]bool

// run <cases.ndjson> <traces.ndjson> <scratchdir> <seed>
func runMain(args []string) error {
	if len(args) != 4 {
		return errors.New("usage: run cases.ndjson traces.ndjson scratchdir seed")
	}
	fmt.Sscanf(args[3], "%d", &fileSeed)
	if fileSeed < 0 {
		fileSeed = -fileSeed
	}
	cases, err := hx.ReadLines[kase](args[0])
	if err != nil {
		return err
	}
	out, err := hx.NewLineWriter(args[1])
	if err != nil {
		return err
	}
	defer out.Close()
	fs := &files{dir: args[2], f: map[int]int{}, idx: map[[2]uint64]int{}}
	own := []int{os.Getpid(), os.Getuid(), os.Getgid()}
	forged := []int{1, 4242, 4343}
	// warm up: poller, /proc
	if a, b, err := unixsocket.NewSocketPair(); err == nil {
		a.SendMsg([]byte("x"), unixsocket.Msg{})
		b.RecvMsg(make([]byte, 8))
		a.Close()
		b.Close()
	}
	initFdCount()
	baseline = fdList()
	for _, c := range cases {
		tr, err := runCase(c, fs, own, forged)
		if err != nil {
			return fmt.Errorf("case %d: %w", c.Id, err)
		}
		out.Write(tr)
	}
	return nil
}

type sentMsg struct {
	id      int
	payload []byte
}

func runCase(c kase, fs *files, own, forged []int) (*trace, error) {
	tr := &trace{Id: c.Id, Layer: c.Layer, Passcred: c.Passcred, Own: own, Forged: forged, Nfiles: nFiles, Ev: []event{}}
	// open the files this case attaches (before the descriptor baseline is taken)
	id := 0
	for _, o := range c.Ops {
		if o.Op == "send" || o.Op == "inject" {
			id++
			for j := 0; j < o.Nfds; j++ {
				fs.get(((id*5+fileSeed)%nFiles + j) % nFiles)
			}
		}
	}
	base := fdCount()
	a, b, err := unixsocket.NewSocketPair()
	if err != nil {
		return nil, err
	}
	closed := false
	defer func() {
		if !closed {
			a.Close()
			b.Close()
		}
	}()
	if c.Passcred {
		if err := b.SetPassCred(1); err != nil {
			return nil, err
		}
	}
	var fa, fb *container.SocketForVerif
	if c.Layer == "gob" {
		fa = container.NewSocketForVerif(a)
		fb = container.NewSocketForVerif(b)
	}
	var sent []sentMsg
	nextID := 0
	accepted, consumed := 0, 0
	var heldMsgs []unixsocket.Msg
	seen := map[int]bool{}
	inspect := func(j int) {
		if seen[j] {
			return
		}
		seen[j] = true
		m := heldMsgs[j-1]
		ev := event{Op: "inspect", J: j, Cred: []int{}, Mids: []int{}, Rfidx: []int{}}
		for _, fd := range m.Fds {
			i, ce, same := fs.look(fd)
			ev.Rfidx = append(ev.Rfidx, i)
			if ce {
				ev.Nce++
			}
			if same {
				ev.Nsame++
			}
		}
		if m.Cred != nil {
			ev.Cred = []int{int(m.Cred.Pid), int(m.Cred.Uid), int(m.Cred.Gid)}
		}
		for _, fd := range m.Fds {
			syscall.Close(fd)
		}
		tr.Ev = append(tr.Ev, ev)
	}
	var ops []op
	for _, o := range c.Ops {
		ops = append(ops, o)
	}
	for i := 0; i < len(ops); i++ {
		o := ops[i]
		if o.Op == "recvall" {
			// receive whatever the sender reported as accepted and is still outstanding
			// (steering by observed outcomes; every receive is logged like any other)
			o.Op = "recv"
			var exp []op
			for k := consumed; k < accepted; k++ {
				exp = append(exp, o)
			}
			ops = append(ops[:i], append(exp, ops[i+1:]...)...)
			i--
			continue
		}
		ev := event{Op: o.Op, Cred: []int{}, Mids: []int{}, Rfidx: []int{}}
		switch o.Op {
		case "inject":
			// a packet the receiving framed socket must reject, sent on the raw socket underneath
			nextID++
			ev.Id, ev.Nfds, ev.Kind, ev.Typ = nextID, o.Nfds, o.Kind, "C"
			var m unixsocket.Msg
			ev.F0 = (nextID*5 + fileSeed) % nFiles
			for j := 0; j < o.Nfds; j++ {
				m.Fds = append(m.Fds, fs.get((ev.F0+j)%nFiles))
			}
			pkt, payload := badPacket(o.Kind, nextID)
			a.SetWriteDeadline(time.Now().Add(3 * time.Second))
			n0 := fdCount()
			serr := a.SendMsg(pkt, m)
			ev.Fdd = fdCount() - n0
			sent = append(sent, sentMsg{nextID, payload})
			if serr != nil {
				ev.Err, ev.Errc = serr.Error(), errClass(serr)
			} else {
				accepted++
			}
		case "send":
			nextID++
			ev.Id, ev.Nfds, ev.Typ = nextID, o.Nfds, o.Typ
			var m unixsocket.Msg
			ev.F0 = (nextID*5 + fileSeed) % nFiles
			for j := 0; j < o.Nfds; j++ {
				m.Fds = append(m.Fds, fs.get((ev.F0+j)%nFiles))
			}
			switch o.Cred {
			case "own":
				ev.Cred = own
			case "forged":
				ev.Cred = forged
			}
			if len(ev.Cred) == 3 {
				m.Cred = &syscall.Ucred{Pid: int32(ev.Cred[0]), Uid: uint32(ev.Cred[1]), Gid: uint32(ev.Cred[2])}
			}
			a.SetWriteDeadline(time.Now().Add(3 * time.Second))
			var payload []byte
			var serr error
			if c.Layer == "raw" {
				payload = pattern(nextID, o.Len)
				ev.Len = o.Len
				n0 := fdCount()
				serr = a.SendMsg(payload, m)
				ev.Fdd = fdCount() - n0
			} else {
				d, err := craft(o.Typ, nextID, o.Val)
				if err != nil {
					return nil, err
				}
				payload = pattern(nextID, d)
				ev.Len, ev.Val = d, o.Val
				v := newValue(o.Typ, nextID, payload)
				n0 := fdCount()
				serr = fa.SendMsg(v, m)
				ev.Fdd = fdCount() - n0
			}
			sent = append(sent, sentMsg{nextID, payload})
			if serr != nil {
				ev.Err, ev.Errc = serr.Error(), errClass(serr)
			} else {
				accepted++
			}
		case "recv":
			b.SetReadDeadline(time.Now().Add(3 * time.Second))
			var m unixsocket.Msg
			var rerr error
			ev.Rbuf, ev.Want, ev.Free = o.Rbuf, o.Want, -1
			restore := func() {}
			if o.Free != nil && *o.Free >= 0 {
				ev.Free = *o.Free
				r, err := squeeze(*o.Free)
				if err != nil {
					return nil, fmt.Errorf("squeeze: %w", err)
				}
				restore = r
			}
			n0 := fdCount()
			if c.Layer == "raw" {
				buf := bytes.Repeat([]byte{0xEE}, o.Rbuf)
				var n int
				n, m, rerr = b.RecvMsg(buf)
				ev.Fdd = fdCount() - n0
				restore()
				ev.N = n
				if rerr == nil {
					for _, s := range sent {
						if len(s.payload) == n && bytes.Equal(s.payload, buf[:n]) {
							ev.Mids = append(ev.Mids, s.id)
						}
					}
					ev.Zero1 = n == 1 && buf[0] == 0
				}
			} else {
				var id int
				var data []byte
				if o.Want == "X" { // a type no message decodes into: the receiver rejects the message
					var v int
					m, rerr = fb.RecvMsg(&v)
				} else if o.Want == "M" || o.Want == "B" {
					var v MsgB
					m, rerr = fb.RecvMsg(&v)
					id, data, ev.Tag = v.Id, v.Data, v.Tag
				} else {
					var v MsgA
					m, rerr = fb.RecvMsg(&v)
					id, data = v.Id, v.Data
				}
				ev.Fdd = fdCount() - n0
				restore()
				if rerr == nil {
					ev.N = len(data)
					for _, s := range sent {
						if s.id == id && bytes.Equal(s.payload, data) {
							ev.Mids = append(ev.Mids, s.id)
						}
					}
				}
			}
			if rerr != nil {
				ev.Err, ev.Errc = rerr.Error(), errClass(rerr)
			}
			if ev.Errc != "timeout" {
				consumed++
			}
			ev.Handed = len(m.Fds)
			tr.Ev = append(tr.Ev, ev)
			if rerr != nil {
				for _, fd := range m.Fds { // handed over next to an error: recorded above, not kept
					syscall.Close(fd)
				}
			}
			if rerr == nil {
				// the caller keeps the message exactly as it was returned (no copy) and looks at it
				// now, after the next receive, or after the whole sequence
				heldMsgs = append(heldMsgs, m)
				switch c.Inspect {
				case "end":
				case "lag":
					if len(heldMsgs) >= 2 {
						inspect(len(heldMsgs) - 1)
					}
				default:
					inspect(len(heldMsgs))
				}
			}
			continue
		default:
			return nil, fmt.Errorf("unknown op %q", o.Op)
		}
		tr.Ev = append(tr.Ev, ev)
	}
	for j := 1; j <= len(heldMsgs); j++ { // whatever the caller has not looked at yet
		inspect(j)
	}
	// is anything left at the receiving end?  (a message the sender reported as refused must not be)
	pe := event{Op: "probe", Cred: []int{}, Mids: []int{}, Rfidx: []int{}}
	if rc, err := b.SyscallConn(); err == nil {
		rc.Control(func(fd uintptr) {
			_, _, e := unix.Recvfrom(int(fd), make([]byte, 1), unix.MSG_PEEK|unix.MSG_DONTWAIT)
			pe.Empty = e == unix.EAGAIN
			if e != nil && e != unix.EAGAIN {
				pe.Err = e.Error()
			}
		})
	}
	tr.Ev = append(tr.Ev, pe)
	a.Close()
	b.Close()
	closed = true
	tr.EndLeak = fdCount() - base
	if tr.EndLeak != 0 {
		keep := map[int]bool{}
		for fd := range baseline {
			keep[fd] = true
		}
		for _, fd := range fs.f {
			keep[fd] = true
		}
		sweep(keep)
	}
	return tr, nil
}
