// vdrive: the Go side of the verification harness.  It contains no oracle: each sub-command
// arranges inputs, runs the real go-sandbox code and writes JSON lines describing what it saw.
// The lines are judged by TLC against the TLA+ specifications in /verif/spec.
package main

import (
	"encoding/json"
	"fmt"
	"os"
	"sort"
	"sync"
)

type subcmd func(args []string) error

var (
	cmds   = map[string]subcmd{}
	preRun []func()
)

// register is called from init() of each per-property file.
func register(name string, f subcmd) { cmds[name] = f }

// registerPre registers a function that runs before argument dispatch
// (used for container.Init(), which re-executes this binary as container init).
func registerPre(f func()) { preRun = append(preRun, f) }

func main() {
	for _, f := range preRun {
		f()
	}
	if len(os.Args) < 2 {
		names := make([]string, 0, len(cmds))
		for k := range cmds {
			names = append(names, k)
		}
		sort.Strings(names)
		fmt.Fprintln(os.Stderr, "usage: vdrive <cmd> args...; cmds:", names)
		os.Exit(2)
	}
	f, ok := cmds[os.Args[1]]
	if !ok {
		fmt.Fprintln(os.Stderr, "unknown sub-command", os.Args[1])
		os.Exit(2)
	}
	if err := f(os.Args[2:]); err != nil {
		fmt.Fprintln(os.Stderr, "vdrive", os.Args[1]+":", err)
		os.Exit(3)
	}
}

// ndjson writer shared by the drivers -----------------------------------------------------

type lineWriter struct {
	mu sync.Mutex
	f  *os.File
	e  *json.Encoder
}

func newLineWriter(path string) (*lineWriter, error) {
	f, err := os.Create(path)
	if err != nil {
		return nil, err
	}
	return &lineWriter{f: f, e: json.NewEncoder(f)}, nil
}

func (w *lineWriter) Write(v any) {
	w.mu.Lock()
	defer w.mu.Unlock()
	if err := w.e.Encode(v); err != nil {
		panic(err)
	}
}

func (w *lineWriter) Close() error { return w.f.Close() }

func readJSONLines[T any](path string) ([]T, error) {
	f, err := os.Open(path)
	if err != nil {
		return nil, err
	}
	defer f.Close()
	dec := json.NewDecoder(f)
	var out []T
	for dec.More() {
		var v T
		if err := dec.Decode(&v); err != nil {
			return nil, err
		}
		out = append(out, v)
	}
	return out, nil
}
