//go:build !c01hook

package main

import "fmt"

// Built against a tree without the cmd/runprog/config verif hooks: the config family is not
// available (the check says so instead of failing to build).
func configMain(args []string) error { return fmt.Errorf("built without c01hook") }
func cleanMain(args []string) error  { return fmt.Errorf("built without c01hook") }
