package main

// Kernel witness: the filter is installed in real children by forkexec.Runner under the launch
// options of the case, probes/seccomp.c issues one system call per child and the way the child
// ends is recorded.  A "w" sample makes the probe spin after exec so that the seccomp state the
// kernel reports for it (/proc/<pid>/status) can be read: that is the kernel's own statement on
// whether a filter was handed over at all, independent of my reading of the program.

import (
	"fmt"
	"os"
	"path/filepath"
	"runtime"
	"strconv"
	"strings"
	"sync"
	"sync/atomic"
	"syscall"
	"time"

	"verifharness/hx"

	"github.com/criyle/go-sandbox/pkg/forkexec"
	"github.com/criyle/go-sandbox/pkg/rlimit"
)

// killChildren sends SIGKILL to every child forked by OS thread tid of this process.
func killChildren(tid int) {
	b, err := os.ReadFile(fmt.Sprintf("/proc/self/task/%d/children", tid))
	if err != nil {
		return
	}
	for _, f := range strings.Fields(string(b)) {
		if pid, err := strconv.Atoi(f); err == nil && pid > 1 {
			syscall.Kill(pid, syscall.SIGKILL)
		}
	}
}

// seccompState returns (Seccomp mode, Seccomp_filters) of /proc/<pid>/status, -1 if unreadable.
func seccompState(pid string) (int, int) {
	b, err := os.ReadFile("/proc/" + pid + "/status")
	if err != nil {
		return -1, -1
	}
	mode, filters := -1, -1
	for _, ln := range strings.Split(string(b), "\n") {
		if v, ok := strings.CutPrefix(ln, "Seccomp:"); ok {
			mode, _ = strconv.Atoi(strings.TrimSpace(v))
		}
		if v, ok := strings.CutPrefix(ln, "Seccomp_filters:"); ok {
			filters, _ = strconv.Atoi(strings.TrimSpace(v))
		}
	}
	return mode, filters
}

func comm(pid int) string {
	b, _ := os.ReadFile(fmt.Sprintf("/proc/%d/comm", pid))
	return strings.TrimSpace(string(b))
}

// statusObs encodes the child's seccomp state relative to the driver's own:
// v = mode*1000 + (filters of the child - filters of the driver)
func statusObs(pid int) (string, int, string) {
	_, own := seccompState("self")
	mode, filters := seccompState(strconv.Itoa(pid))
	if mode < 0 || filters < 0 || own < 0 {
		return "starterr", 0, "cannot read seccomp state from /proc"
	}
	return "status", mode*1000 + (filters - own), ""
}

func reap(pid int) syscall.WaitStatus {
	var ws syscall.WaitStatus
	for {
		_, err := syscall.Wait4(pid, &ws, syscall.WALL, nil)
		if err != syscall.EINTR {
			return ws
		}
	}
}

func ended(ws syscall.WaitStatus) (string, int, string) {
	switch {
	case ws.Signaled():
		return "sig", int(ws.Signal()), ""
	case ws.Exited():
		return "exit", ws.ExitStatus(), ""
	}
	return "starterr", int(ws), "unexpected wait status"
}

func runSample(probe string, fp *syscall.SockFprog, opt launchOpt, s sample) (string, int, string) {
	type res struct {
		o string
		v int
		d string
	}
	ch := make(chan res, 1)
	go func() {
		// ptrace requests must come from the thread that forked the tracee
		runtime.LockOSThread()
		defer runtime.UnlockOSThread()
		o, v, d := launch(probe, fp, opt, s)
		ch <- res{o, v, d}
	}()
	r := <-ch
	return r.o, r.v, r.d
}

func launch(probe string, fp *syscall.SockFprog, opt launchOpt, s sample) (string, int, string) {
	r := forkexec.Runner{
		Args:                   []string{probe, s.M, fmt.Sprintf("%x", s.Nr.u32())},
		Env:                    []string{},
		Seccomp:                fp,
		RLimits:                (&rlimit.RLimits{DisableCore: true}).PrepareRLimit(),
		UnshareCgroupAfterSync: opt.Unshare,
	}
	switch opt.Caps {
	case "drop":
		r.DropCaps = true
	case "cred":
		r.Credential = &syscall.Credential{Uid: 65534, Gid: 65534}
	}
	if opt.Sync {
		r.SyncFunc = func(int) error { return nil }
	}
	switch opt.Mode {
	case "ptrace":
		r.Ptrace = true
	case "stop":
		r.StopBeforeSeccomp = true
	}
	// A filter that does not let execve (or the child's error path: write, exit) through leaves the
	// forked child spinning before exec and Start blocked on the sync pipe.  The watchdog kills
	// the children of this (locked) thread so that the driver always terminates; the launch is
	// reported as "stuck".
	tid := syscall.Gettid()
	finished := make(chan struct{})
	defer close(finished)
	var timedOut atomic.Bool
	go func() {
		select {
		case <-finished:
		case <-time.After(10 * time.Second):
			timedOut.Store(true)
			killChildren(tid)
		}
	}()
	pid, err := r.Start()
	if err != nil {
		if timedOut.Load() {
			return "stuck", 0, err.Error()
		}
		if ce, ok := err.(forkexec.ChildError); ok {
			if ce.Location == forkexec.LocSeccomp {
				return "loadfail", int(ce.Err), ""
			}
			return "starterr", int(ce.Err), fmt.Sprintf("location %v", ce.Location)
		}
		return "starterr", 0, err.Error()
	}
	var o string
	var v int
	var d string
	if opt.Mode == "ptrace" {
		o, v, d = trace(pid, s.M == "w")
	} else {
		o, v, d = watch(pid, opt.Mode == "stop", s.M == "w", filepath.Base(probe))
	}
	if timedOut.Load() {
		return "stuck", 0, "child never reached exec or never ended"
	}
	return o, v, d
}

// watch follows an untraced child to its end (or, for a spinning probe, reads its seccomp state
// once it has been exec'ed and kills it).  A child that never ends is killed by the watchdog.
func watch(pid int, stopped, spin bool, probeComm string) (string, int, string) {
	var ws syscall.WaitStatus
	if len(probeComm) > 15 {
		probeComm = probeComm[:15]
	}
	for {
		flags := syscall.WUNTRACED
		if spin {
			flags |= syscall.WNOHANG
		}
		wpid, err := syscall.Wait4(pid, &ws, flags, nil)
		if err == syscall.EINTR {
			continue
		}
		if err != nil {
			return "starterr", 0, "wait4: " + err.Error()
		}
		if wpid == pid {
			if ws.Stopped() {
				// StopBeforeSeccomp: the child waits for its controller right before the filter load
				syscall.Kill(pid, syscall.SIGCONT)
				continue
			}
			return ended(ws)
		}
		if comm(pid) == probeComm {
			o, v, d := statusObs(pid)
			syscall.Kill(pid, syscall.SIGKILL)
			reap(pid)
			return o, v, d
		}
		time.Sleep(time.Millisecond)
	}
}

// trace is a minimal tracer for Ptrace launches: no PTRACE_O_TRACESECCOMP (a TRACE verdict then
// yields ENOSYS exactly as without tracer), exec reported as an event, every signal delivered.
func trace(pid int, spin bool) (string, int, string) {
	ws := reap(pid)
	if !ws.Stopped() {
		return ended(ws)
	}
	if err := syscall.PtraceSetOptions(pid, syscall.PTRACE_O_TRACEEXEC|0x100000 /* PTRACE_O_EXITKILL */); err != nil {
		syscall.Kill(pid, syscall.SIGKILL)
		reap(pid)
		return "starterr", 0, "ptrace setoptions: " + err.Error()
	}
	sig := 0
	for {
		if err := syscall.PtraceCont(pid, sig); err != nil {
			syscall.Kill(pid, syscall.SIGKILL)
			reap(pid)
			return "starterr", 0, "ptrace cont: " + err.Error()
		}
		ws = reap(pid)
		if !ws.Stopped() {
			return ended(ws)
		}
		switch {
		case ws.StopSignal() == syscall.SIGTRAP && ws.TrapCause() == syscall.PTRACE_EVENT_EXEC:
			sig = 0
			if spin {
				o, v, d := statusObs(pid)
				syscall.Kill(pid, syscall.SIGKILL)
				reap(pid)
				return o, v, d
			}
		case ws.StopSignal() == syscall.SIGSTOP:
			sig = 0
		default:
			sig = int(ws.StopSignal()) // deliver: the probe reports through the signal that kills it
		}
	}
}

func kernelMain(args []string) error {
	if len(args) != 3 {
		return fmt.Errorf("usage: kernel <cases.ndjson> <probe> <out.ndjson>")
	}
	info, err := nativeTable()
	if err != nil {
		return err
	}
	cases, err := hx.ReadLines[policyCase](args[0])
	if err != nil {
		return err
	}
	out, err := hx.NewLineWriter(args[2])
	if err != nil {
		return err
	}
	defer out.Close()
	// lines are independent: four launchers work through them, output stays in case order
	lines := make([]policyLine, len(cases))
	errs := make([]error, len(cases))
	next := make(chan int)
	var wg sync.WaitGroup
	for w := 0; w < 4; w++ {
		wg.Add(1)
		go func() {
			defer wg.Done()
			for i := range next {
				c := cases[i]
				l, fp, err := buildLine(info, c, c.Allow, c.Trace)
				if err != nil {
					errs[i] = fmt.Errorf("case %s: %w", c.ID, err)
					continue
				}
				if fp != nil {
					for _, s := range c.Samples {
						s.O, s.V, s.D = runSample(args[1], fp, c.Opt, s)
						l.Obs = append(l.Obs, s)
						if s.O == "stuck" {
							break // every further launch under this filter would hang the same way
						}
					}
				}
				lines[i] = l
			}
		}()
	}
	for i := range cases {
		next <- i
	}
	close(next)
	wg.Wait()
	for i := range cases {
		if errs[i] != nil {
			return errs[i]
		}
		out.Write(lines[i])
	}
	return nil
}
