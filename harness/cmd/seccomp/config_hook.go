//go:build c01hook

package main

// Real cmd/runprog/config outputs (needs the verif hooks of that package: VerifRaw,
// VerifCleanTrace).  The *declared* policy of a line is the raw list pair GetConf collected;
// the program is built from what GetConf returned after its own clean-up.

import (
	"fmt"

	"verifharness/hx"

	"github.com/criyle/go-sandbox/cmd/runprog/config"
	"github.com/criyle/go-sandbox/pkg/seccomp/libseccomp"
)

type cleanCase struct {
	ID string   `json:"id"`
	A  []string `json:"a"`
	T  []string `json:"t"`
	OA []string `json:"oa"`
	OT []string `json:"ot"`
}

func nz(s []string) []string {
	if s == nil {
		return []string{}
	}
	return s
}

// config <extra.json> <policies-out.ndjson> <cleanobs-out.ndjson>
func configMain(args []string) error {
	if len(args) != 3 {
		return fmt.Errorf("usage: config <extra.ndjson> <policies.ndjson> <cleanobs.ndjson>")
	}
	info, err := nativeTable()
	if err != nil {
		return err
	}
	extra, err := hx.ReadLines[[]word](args[0])
	if err != nil {
		return err
	}
	var ex []word
	if len(extra) > 0 {
		ex = extra[0]
	}
	pol, err := hx.NewLineWriter(args[1])
	if err != nil {
		return err
	}
	defer pol.Close()
	obs, err := hx.NewLineWriter(args[2])
	if err != nil {
		return err
	}
	defer obs.Close()

	var rawA, rawT []string
	config.VerifRaw = func(a, t []string) { rawA, rawT = a, t }
	defer func() { config.VerifRaw = nil }()
	for _, pt := range []string{"", "python2.7", "python3", "compiler", "no-such-type"} {
		for _, proc := range []bool{false, true} {
			rawA, rawT = nil, nil
			_, allow, trace, _ := config.GetConf(pt, "/w", []string{"/w/a.out"}, nil, nil, proc)
			if rawA == nil && rawT == nil {
				return fmt.Errorf("GetConf(%q) did not report its raw lists", pt)
			}
			id := fmt.Sprintf("cfg:%s:proc=%v", pt, proc)
			obs.Write(cleanCase{ID: id, A: nz(rawA), T: nz(rawT), OA: nz(allow), OT: nz(trace)})
			for _, d := range []libseccomp.Action{libseccomp.ActionKill, libseccomp.ActionTrace} {
				c := policyCase{ID: fmt.Sprintf("%s:def=%d", id, d), Kind: "config", Allow: nz(rawA), Trace: nz(rawT),
					Def: uint32(d), Extra: ex}
				l, _, err := buildLine(info, c, allow, trace)
				if err != nil {
					return err
				}
				pol.Write(l)
				// runprog's non-ptrace runners merge the trace list into the allow list
				m := policyCase{ID: fmt.Sprintf("%s:merged:def=%d", id, d), Kind: "config-merged",
					Allow: append(append([]string{}, allow...), trace...), Trace: []string{}, Def: uint32(d), Extra: ex}
				l, _, err = buildLine(info, m, m.Allow, nil)
				if err != nil {
					return err
				}
				pol.Write(l)
			}
		}
	}
	return nil
}

// clean <cases.ndjson> <out.ndjson>: TLC-generated list pairs through the real cleanTrace
func cleanMain(args []string) error {
	if len(args) != 2 {
		return fmt.Errorf("usage: clean <cases.ndjson> <out.ndjson>")
	}
	cases, err := hx.ReadLines[cleanCase](args[0])
	if err != nil {
		return err
	}
	out, err := hx.NewLineWriter(args[1])
	if err != nil {
		return err
	}
	defer out.Close()
	for i, c := range cases {
		oa, ot := config.VerifCleanTrace(append([]string{}, c.A...), append([]string{}, c.T...))
		c.ID = fmt.Sprintf("gen%d", i+1)
		c.A, c.T, c.OA, c.OT = nz(c.A), nz(c.T), nz(oa), nz(ot)
		out.Write(c)
	}
	return nil
}
