// Command seccomp is the C01 driver: it builds seccomp filters with the real
// libseccomp.Builder, reads the program back through Filter.SockFprog() (pointer + length, i.e.
// exactly what seccomp(2) is handed) and writes it out for TLC.  For the kernel cross-check it
// installs filters in real children through forkexec.Runner and records how each child died.
//
// There is no oracle in this file: nothing here knows what a filter should return.
package main

import (
	"encoding/json"
	"fmt"
	"os"
	"runtime"
	"strconv"
	"strings"
	"syscall"
	"time"
	"unsafe"

	"verifharness/hx"

	"github.com/criyle/go-sandbox/pkg/forkexec"
	"github.com/criyle/go-sandbox/pkg/rlimit"
	"github.com/criyle/go-sandbox/pkg/seccomp/libseccomp"
	"github.com/elastic/go-seccomp-bpf/arch"
)

func main() {
	hx.Register("table", tableMain)
	hx.Register("build", buildMain)
	hx.Register("kernel", kernelMain)
	hx.Register("config", configMain)
	hx.Register("clean", cleanMain)
	hx.Main()
}

// word is a 32-bit value as [hi16, lo16] (TLC integers are 32-bit signed).
type word [2]int

func w32(v uint32) word { return word{int(v >> 16), int(v & 0xffff)} }

func (w word) u32() uint32 { return uint32(w[0])<<16 | uint32(w[1]) }

type ins struct {
	C  int  `json:"c"`
	Jt int  `json:"jt"`
	Jf int  `json:"jf"`
	K  word `json:"k"`
}

// policyCase is a policy as a caller expresses it (names) plus probe points for TLC.
type policyCase struct {
	ID    string   `json:"id"`
	Kind  string   `json:"kind"`
	Allow []string `json:"allow"`
	Trace []string `json:"trace"`
	Def   uint32   `json:"def"`
	Extra []word   `json:"extra"`
	// kernel cross-check only
	Samples []sample `json:"samples,omitempty"`
}

type sample struct {
	M  string `json:"m"` // "n" native syscall instruction, "i" int 0x80
	Nr word   `json:"nr"`
	// filled by the driver: how the child ended.  o: sig / exit / blocked / loadfail / starterr,
	// v: signal number, exit status or errno, d: detail for starterr
	O string `json:"o"`
	V int    `json:"v"`
	D string `json:"d"`
}

// policyLine is what TLC reads: the declared policy in numbers and the program the kernel gets.
type policyLine struct {
	ID     string   `json:"id"`
	Kind   string   `json:"kind"`
	Allow  []int    `json:"allow"`
	Trace  []int    `json:"trace"`
	Def    word     `json:"def"`
	Err    string   `json:"err"`
	Len    int      `json:"len"`
	Prog   []ins    `json:"prog"`
	Extra  []word   `json:"extra"`
	NAllow []string `json:"nallow"` // names, for the replay file only
	NTrace []string `json:"ntrace"`
	Obs    []sample `json:"obs"`
}

func nativeTable() (*arch.Info, error) { return arch.GetInfo("") }

func tableMain(args []string) error {
	if len(args) != 1 {
		return fmt.Errorf("usage: table <out.json>")
	}
	info, err := nativeTable()
	if err != nil {
		return err
	}
	out := map[string]any{"goarch": runtime.GOARCH, "archname": info.Name, "names": info.SyscallNames}
	b, err := json.Marshal(out)
	if err != nil {
		return err
	}
	return os.WriteFile(args[0], b, 0o644)
}

func numbers(info *arch.Info, names []string) ([]int, error) {
	out := make([]int, 0, len(names))
	for _, n := range names {
		v, ok := info.SyscallNames[n]
		if !ok {
			return nil, fmt.Errorf("name %q is not in the native syscall table", n)
		}
		out = append(out, v)
	}
	return out, nil
}

// readBack returns the instructions the kernel would be given: Len instructions starting at
// Filter, taken from the SockFprog value and nothing else.
func readBack(fp *syscall.SockFprog) []ins {
	raw := unsafe.Slice(fp.Filter, int(fp.Len))
	out := make([]ins, 0, len(raw))
	for _, r := range raw {
		out = append(out, ins{C: int(r.Code), Jt: int(r.Jt), Jf: int(r.Jf), K: w32(r.K)})
	}
	return out
}

// buildLine runs the real builder for the built lists and describes the result; declared lists
// (what the caller asked for) are reported separately so that list clean-up done by the real
// code in between (config.GetConf) is part of what is judged.
func buildLine(info *arch.Info, c policyCase, builtAllow, builtTrace []string) (policyLine, *syscall.SockFprog, error) {
	l := policyLine{ID: c.ID, Kind: c.Kind, Def: w32(c.Def), Extra: c.Extra, NAllow: c.Allow, NTrace: c.Trace,
		Prog: []ins{}, Obs: []sample{}}
	if l.Extra == nil {
		l.Extra = []word{}
	}
	var err error
	if l.Allow, err = numbers(info, c.Allow); err != nil {
		return l, nil, err
	}
	if l.Trace, err = numbers(info, c.Trace); err != nil {
		return l, nil, err
	}
	b := libseccomp.Builder{Allow: builtAllow, Trace: builtTrace, Default: libseccomp.Action(c.Def)}
	filter, err := b.Build()
	if err != nil {
		l.Err = err.Error()
		return l, nil, nil
	}
	if len(filter) == 0 {
		l.Err = "Build returned an empty filter"
		return l, nil, nil
	}
	fp := filter.SockFprog()
	l.Len = int(fp.Len)
	l.Prog = readBack(fp)
	return l, fp, nil
}

func buildMain(args []string) error {
	if len(args) != 2 {
		return fmt.Errorf("usage: build <cases.ndjson> <out.ndjson>")
	}
	info, err := nativeTable()
	if err != nil {
		return err
	}
	cases, err := hx.ReadLines[policyCase](args[0])
	if err != nil {
		return err
	}
	out, err := hx.NewLineWriter(args[1])
	if err != nil {
		return err
	}
	defer out.Close()
	for _, c := range cases {
		l, _, err := buildLine(info, c, c.Allow, c.Trace)
		if err != nil {
			return fmt.Errorf("case %s: %w", c.ID, err)
		}
		out.Write(l)
	}
	return nil
}

// ---- kernel cross-check -------------------------------------------------------------------

// killChildren sends SIGKILL to every direct child of this process.
func killChildren() {
	tasks, _ := os.ReadDir("/proc/self/task")
	for _, t := range tasks {
		b, err := os.ReadFile("/proc/self/task/" + t.Name() + "/children")
		if err != nil {
			continue
		}
		for _, f := range strings.Fields(string(b)) {
			if pid, err := strconv.Atoi(f); err == nil && pid > 1 {
				syscall.Kill(pid, syscall.SIGKILL)
			}
		}
	}
}

func runSample(probe string, fp *syscall.SockFprog, s sample) (string, int, string) {
	r := forkexec.Runner{
		Args:     []string{probe, s.M, fmt.Sprintf("%x", s.Nr.u32())},
		Env:      []string{},
		Seccomp:  fp,
		DropCaps: true,
		RLimits:  (&rlimit.RLimits{DisableCore: true}).PrepareRLimit(),
	}
	// A filter that does not let execve (or the child's error path: write, exit) through leaves the
	// forked child spinning before exec and Start blocked on the sync pipe.  The watchdog kills
	// our direct children so that the driver always terminates; the launch is reported as "stuck".
	started := make(chan struct{})
	stuck := make(chan bool, 1)
	go func() {
		select {
		case <-started:
			stuck <- false
		case <-time.After(10 * time.Second):
			killChildren()
			stuck <- true
		}
	}()
	pid, err := r.Start()
	close(started)
	wasStuck := <-stuck
	if err != nil {
		if wasStuck {
			return "stuck", 0, err.Error()
		}
		if ce, ok := err.(forkexec.ChildError); ok {
			if ce.Location == forkexec.LocSeccomp {
				return "loadfail", int(ce.Err), ""
			}
			return "starterr", int(ce.Err), fmt.Sprintf("location %v", ce.Location)
		}
		return "starterr", 0, err.Error()
	}
	if wasStuck {
		var ws syscall.WaitStatus
		syscall.Wait4(pid, &ws, 0, nil)
		return "stuck", 0, "child never reached exec"
	}
	var ws syscall.WaitStatus
	deadline := time.Now().Add(5 * time.Second)
	blocked := false
	for {
		wpid, err := syscall.Wait4(pid, &ws, syscall.WNOHANG, nil)
		if err == syscall.EINTR {
			continue
		}
		if err != nil {
			return "starterr", 0, "wait4: " + err.Error()
		}
		if wpid == pid {
			break
		}
		if !blocked && time.Now().After(deadline) {
			blocked = true
			syscall.Kill(pid, syscall.SIGKILL)
		}
		time.Sleep(200 * time.Microsecond)
	}
	switch {
	case blocked:
		return "blocked", 0, ""
	case ws.Signaled():
		return "sig", int(ws.Signal()), ""
	case ws.Exited():
		return "exit", ws.ExitStatus(), ""
	}
	return "starterr", int(ws), "unexpected wait status"
}

func kernelMain(args []string) error {
	if len(args) != 3 {
		return fmt.Errorf("usage: kernel <cases.ndjson> <probe> <out.ndjson>")
	}
	info, err := nativeTable()
	if err != nil {
		return err
	}
	cases, err := hx.ReadLines[policyCase](args[0])
	if err != nil {
		return err
	}
	out, err := hx.NewLineWriter(args[2])
	if err != nil {
		return err
	}
	defer out.Close()
	for _, c := range cases {
		l, fp, err := buildLine(info, c, c.Allow, c.Trace)
		if err != nil {
			return fmt.Errorf("case %s: %w", c.ID, err)
		}
		if fp != nil {
			for _, s := range c.Samples {
				s.O, s.V, s.D = runSample(args[1], fp, s)
				l.Obs = append(l.Obs, s)
				if s.O == "stuck" {
					break // every further launch under this filter would hang the same way
				}
			}
		}
		out.Write(l)
	}
	return nil
}
