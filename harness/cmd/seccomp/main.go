// Command seccomp is the C01 driver: it builds seccomp filters with the real
// libseccomp.Builder, reads the program back through Filter.SockFprog() (pointer + length, i.e.
// exactly what seccomp(2) is handed) and writes it out for TLC.  For the kernel cross-check it
// installs filters in real children through forkexec.Runner and records how each child died.
//
// There is no oracle in this file: nothing here knows what a filter should return.
package main

import (
	"encoding/json"
	"fmt"
	"os"
	"runtime"
	"syscall"
	"unsafe"

	"verifharness/hx"

	"github.com/criyle/go-sandbox/pkg/seccomp/libseccomp"
	"github.com/elastic/go-seccomp-bpf/arch"
)

func main() {
	hx.Register("table", tableMain)
	hx.Register("build", buildMain)
	hx.Register("kernel", kernelMain)
	hx.Register("config", configMain)
	hx.Register("clean", cleanMain)
	hx.Main()
}

// word is a 32-bit value as [hi16, lo16] (TLC integers are 32-bit signed).
type word [2]int

func w32(v uint32) word { return word{int(v >> 16), int(v & 0xffff)} }

func (w word) u32() uint32 { return uint32(w[0])<<16 | uint32(w[1]) }

type ins struct {
	C  int  `json:"c"`
	Jt int  `json:"jt"`
	Jf int  `json:"jf"`
	K  word `json:"k"`
}

// policyCase is a policy as a caller expresses it (names) plus probe points for TLC.
type policyCase struct {
	ID    string   `json:"id"`
	Kind  string   `json:"kind"`
	Allow []string `json:"allow"`
	Trace []string `json:"trace"`
	Def   uint32   `json:"def"`
	Extra []word   `json:"extra"`
	// kernel cross-check only
	Samples []sample  `json:"samples,omitempty"`
	Opt     launchOpt `json:"opt"`
}

// launchOpt selects the forkexec.Runner options that decide where (and whether) the child loads
// the filter: fork_child_linux.go has an early load site and a late one after the parent sync.
type launchOpt struct {
	Unshare bool   `json:"unshare"` // UnshareCgroupAfterSync
	Caps    string `json:"caps"`    // "none" | "drop" (DropCaps) | "cred" (Credential nobody)
	Sync    bool   `json:"sync"`    // SyncFunc set
	Mode    string `json:"mode"`    // "plain" | "ptrace" (Ptrace + minimal tracer) | "stop" (StopBeforeSeccomp)
}

type sample struct {
	M  string `json:"m"` // "n" native syscall instruction, "i" int 0x80, "w" spin (seccomp state is read from /proc)
	Nr word   `json:"nr"`
	// filled by the driver: how the child ended.  o: sig / exit / blocked / loadfail / starterr,
	// v: signal number, exit status or errno, d: detail for starterr
	O string `json:"o"`
	V int    `json:"v"`
	D string `json:"d"`
}

// policyLine is what TLC reads: the declared policy in numbers and the program the kernel gets.
type policyLine struct {
	ID     string    `json:"id"`
	Kind   string    `json:"kind"`
	Allow  []int     `json:"allow"`
	Trace  []int     `json:"trace"`
	Def    word      `json:"def"`
	Err    string    `json:"err"`
	Len    int       `json:"len"`
	Prog   []ins     `json:"prog"`
	Extra  []word    `json:"extra"`
	NAllow []string  `json:"nallow"` // names, for the replay file only
	NTrace []string  `json:"ntrace"`
	Obs    []sample  `json:"obs"`
	Opt    launchOpt `json:"opt"`
}

func nativeTable() (*arch.Info, error) { return arch.GetInfo("") }

func tableMain(args []string) error {
	if len(args) != 1 {
		return fmt.Errorf("usage: table <out.json>")
	}
	info, err := nativeTable()
	if err != nil {
		return err
	}
	out := map[string]any{"goarch": runtime.GOARCH, "archname": info.Name, "names": info.SyscallNames}
	b, err := json.Marshal(out)
	if err != nil {
		return err
	}
	return os.WriteFile(args[0], b, 0o644)
}

func numbers(info *arch.Info, names []string) ([]int, error) {
	out := make([]int, 0, len(names))
	for _, n := range names {
		v, ok := info.SyscallNames[n]
		if !ok {
			return nil, fmt.Errorf("name %q is not in the native syscall table", n)
		}
		out = append(out, v)
	}
	return out, nil
}

// readBack returns the instructions the kernel would be given: Len instructions starting at
// Filter, taken from the SockFprog value and nothing else.
func readBack(fp *syscall.SockFprog) []ins {
	raw := unsafe.Slice(fp.Filter, int(fp.Len))
	out := make([]ins, 0, len(raw))
	for _, r := range raw {
		out = append(out, ins{C: int(r.Code), Jt: int(r.Jt), Jf: int(r.Jf), K: w32(r.K)})
	}
	return out
}

// buildLine runs the real builder for the built lists and describes the result; declared lists
// (what the caller asked for) are reported separately so that list clean-up done by the real
// code in between (config.GetConf) is part of what is judged.
func buildLine(info *arch.Info, c policyCase, builtAllow, builtTrace []string) (policyLine, *syscall.SockFprog, error) {
	l := policyLine{ID: c.ID, Kind: c.Kind, Def: w32(c.Def), Extra: c.Extra, NAllow: c.Allow, NTrace: c.Trace,
		Prog: []ins{}, Obs: []sample{}, Opt: c.Opt}
	if l.Extra == nil {
		l.Extra = []word{}
	}
	var err error
	if l.Allow, err = numbers(info, c.Allow); err != nil {
		return l, nil, err
	}
	if l.Trace, err = numbers(info, c.Trace); err != nil {
		return l, nil, err
	}
	b := libseccomp.Builder{Allow: builtAllow, Trace: builtTrace, Default: libseccomp.Action(c.Def)}
	filter, err := b.Build()
	if err != nil {
		l.Err = err.Error()
		return l, nil, nil
	}
	if len(filter) == 0 {
		l.Err = "Build returned an empty filter"
		return l, nil, nil
	}
	fp := filter.SockFprog()
	l.Len = int(fp.Len)
	l.Prog = readBack(fp)
	return l, fp, nil
}

func buildMain(args []string) error {
	if len(args) != 2 {
		return fmt.Errorf("usage: build <cases.ndjson> <out.ndjson>")
	}
	info, err := nativeTable()
	if err != nil {
		return err
	}
	cases, err := hx.ReadLines[policyCase](args[0])
	if err != nil {
		return err
	}
	out, err := hx.NewLineWriter(args[1])
	if err != nil {
		return err
	}
	defer out.Close()
	for _, c := range cases {
		l, _, err := buildLine(info, c, c.Allow, c.Trace)
		if err != nil {
			return fmt.Errorf("case %s: %w", c.ID, err)
		}
		out.Write(l)
	}
	return nil
}
