package main

// C18 driver: evaluates the real filehandler functions on TLC-generated cases.
// No oracle here: results are written as observation lines and judged by TLC.

import (
	"fmt"
	"os"
	"path/filepath"
	"strings"

	"verifharness/hx"

	"github.com/criyle/go-sandbox/cmd/runprog/config"
	"github.com/criyle/go-sandbox/ptracer"
	"github.com/criyle/go-sandbox/runner/ptrace/filehandler"
)

func main() {
	hx.Register("run", c18Main)
	hx.Register("asm", c18Asm)
	hx.Main()
}

type c18Entry struct {
	K string   `json:"k"`
	P []string `json:"p"`
}

// component "a" becomes "vqa" so that no generated path exists on the host
// (FileSets also consults filepath.EvalSymlinks of the name).
func c18Path(p []string) string {
	if len(p) == 1 && p[0] == "EMPTY" {
		return ""
	}
	if len(p) == 0 {
		return "/"
	}
	var sb strings.Builder
	for _, c := range p {
		sb.WriteString("/vq")
		sb.WriteString(c)
	}
	return sb.String()
}

func c18EntryString(e c18Entry) string {
	base := c18Path(e.P)
	switch e.K {
	case "exact":
		return base
	case "dir":
		return base + "/"
	default: // children
		if len(e.P) == 0 {
			return "/*"
		}
		return base + "/*"
	}
}

type c18SetCase struct {
	Set []c18Entry `json:"set"`
	Q   []string   `json:"q"`
	Got *bool      `json:"got,omitempty"`
}

type c18CompCase struct {
	Where string     `json:"where"`
	Via   string     `json:"via"`
	E     []c18Entry `json:"e"`
	B     []c18Entry `json:"b"`
	Q     []string   `json:"q"`
	Class string     `json:"class"`
	Got   string     `json:"got,omitempty"`
}

type c18Hist struct {
	Budget map[string]int `json:"budget"`
	Calls  []string       `json:"calls"`
}

type c18Ev struct {
	N string `json:"n"`
	R string `json:"r"`
}

type c18Trace struct {
	Budget map[string]int `json:"budget"`
	Ev     []c18Ev        `json:"ev"`
}

func c18Action(a ptracer.TraceAction) string {
	switch a {
	case ptracer.TraceAllow:
		return "allow"
	case ptracer.TraceBan:
		return "ban"
	case ptracer.TraceKill:
		return "kill"
	}
	return fmt.Sprintf("action%d", int(a))
}

// vdrive c18 <setcases> <compcases> <hists> <setobs> <compobs> <traces>
func c18Main(args []string) error {
	if len(args) != 6 {
		return fmt.Errorf("want 6 file arguments")
	}
	setCases, err := hx.ReadLines[c18SetCase](args[0])
	if err != nil {
		return err
	}
	compCases, err := hx.ReadLines[c18CompCase](args[1])
	if err != nil {
		return err
	}
	hists, err := hx.ReadLines[c18Hist](args[2])
	if err != nil {
		return err
	}
	so, err := hx.NewLineWriter(args[3])
	if err != nil {
		return err
	}
	defer so.Close()
	for i, c := range setCases {
		fs := filehandler.NewFileSet()
		if i%2 == 0 {
			for _, e := range c.Set {
				fs.Add(c18EntryString(e))
			}
		} else {
			// AddRange: absolute names go in as they are; a dir entry can also be given
			// as a name relative to a work path
			var names []string
			work := "/"
			for _, e := range c.Set {
				if e.K == "dir" && len(e.P) >= 1 {
					work = c18Path(e.P[:len(e.P)-1])
					fs.AddRange([]string{"vq" + e.P[len(e.P)-1]}, work)
					continue
				}
				names = append(names, c18EntryString(e))
			}
			fs.AddRange(names, work)
		}
		got := fs.IsInSetSmart(c18Path(c.Q))
		c.Got = &got
		so.Write(c)
	}
	co, err := hx.NewLineWriter(args[4])
	if err != nil {
		return err
	}
	defer co.Close()
	for _, c := range compCases {
		sets := filehandler.NewFileSets()
		for _, e := range c.B {
			sets.SoftBan.Add(c18EntryString(e))
		}
		for _, e := range c.E {
			name := c18EntryString(e)
			var mode filehandler.FilePerm
			var tgt *filehandler.FileSet
			switch c.Where {
			case "write":
				mode, tgt = filehandler.FilePermWrite, &sets.Writable
			case "read":
				mode, tgt = filehandler.FilePermRead, &sets.Readable
			default:
				mode, tgt = filehandler.FilePermStat, &sets.Statable
			}
			if c.Via == "perm" {
				sets.AddFilePermission(name, mode)
			} else {
				tgt.Add(name)
			}
		}
		h := &filehandler.Handler{FileSet: sets, SyscallCounter: filehandler.NewSyscallCounter()}
		q := c18Path(c.Q)
		var a ptracer.TraceAction
		switch c.Class {
		case "write":
			a = h.CheckWrite(q)
		case "read":
			a = h.CheckRead(q)
		default:
			a = h.CheckStat(q)
		}
		c.Got = c18Action(a)
		co.Write(c)
	}
	to, err := hx.NewLineWriter(args[5])
	if err != nil {
		return err
	}
	defer to.Close()
	for i, hst := range hists {
		sc := filehandler.NewSyscallCounter()
		m := map[string]int{}
		for k, v := range hst.Budget {
			if v >= 0 {
				m[k] = v
			}
		}
		if i%2 == 0 {
			sc.AddRange(m)
		} else {
			for k, v := range m {
				sc.Add(k, v)
			}
		}
		h := &filehandler.Handler{FileSet: filehandler.NewFileSets(), SyscallCounter: sc}
		tr := c18Trace{Budget: hst.Budget, Ev: []c18Ev{}}
		for _, n := range hst.Calls {
			tr.Ev = append(tr.Ev, c18Ev{N: n, R: c18Action(h.CheckSyscall(n))})
		}
		to.Write(tr)
	}
	return nil
}

// ---------------------------------------------------------------- policy assembly (GetExtraSet + GetConf)

type c18AsmCase struct {
	RRaw []string `json:"rraw"`
	RExt []string `json:"rext"`
	WRaw []string `json:"wraw"`
	WExt []string `json:"wext"`
}

type c18AsmObs struct {
	c18AsmCase
	Q     []string `json:"q"`
	Class string   `json:"class"`
	Base  string   `json:"base"`
	Got   string   `json:"got"`
}

// vdrive asm <cases> <queries> <world dir> <obs>
func c18Asm(args []string) error {
	if len(args) != 4 {
		return fmt.Errorf("want: cases queries worlddir obs")
	}
	cases, err := hx.ReadLines[c18AsmCase](args[0])
	if err != nil {
		return err
	}
	qs, err := hx.ReadLines[struct {
		Q []string `json:"q"`
	}](args[1])
	if err != nil {
		return err
	}
	// the world of PolicyAssembly.tla, for real
	t, err := filepath.EvalSymlinks(args[2])
	if err != nil {
		return err
	}
	for _, d := range []string{"x/d", "w/sub"} {
		if err := os.MkdirAll(filepath.Join(t, d), 0755); err != nil {
			return err
		}
	}
	for _, f := range []string{"x/f", "x/d/in", "x/t", "w/sub/deep", "w/prog"} {
		if err := os.WriteFile(filepath.Join(t, f), []byte("x"), 0644); err != nil {
			return err
		}
	}
	os.Remove(filepath.Join(t, "x/l"))
	if err := os.Symlink(filepath.Join(t, "x/t"), filepath.Join(t, "x/l")); err != nil {
		return err
	}
	work := filepath.Join(t, "w")
	name := func(n string) string {
		switch n {
		case "f":
			return filepath.Join(t, "x/f")
		case "d/":
			return filepath.Join(t, "x/d") + "/"
		case "d*":
			return filepath.Join(t, "x/d") + "/*"
		case "m":
			return filepath.Join(t, "x/m")
		case "l":
			return filepath.Join(t, "x/l")
		}
		return n // relative: "sub"
	}
	names := func(l []string) []string {
		out := []string{}
		for _, n := range l {
			out = append(out, name(n))
		}
		return out
	}
	verdict := func(h interface {
		CheckRead(string) ptracer.TraceAction
		CheckWrite(string) ptracer.TraceAction
		CheckStat(string) ptracer.TraceAction
	}, class, q string) string {
		switch class {
		case "write":
			return c18Action(h.CheckWrite(q))
		case "read":
			return c18Action(h.CheckRead(q))
		}
		return c18Action(h.CheckStat(q))
	}
	out, err := hx.NewLineWriter(args[3])
	if err != nil {
		return err
	}
	defer out.Close()
	prog := []string{filepath.Join(work, "prog")}
	// assembled exactly as cmd/runprog does
	_, _, _, base := config.GetConf("", work, prog, filehandler.GetExtraSet(nil, nil), filehandler.GetExtraSet(nil, nil), false)
	// the default policy is evaluated before any other policy exists in this process: a policy assembled later
	// must not depend on (or change) one assembled earlier
	baseV := map[string]string{}
	for _, q := range qs {
		qp := filepath.Join(append([]string{t}, q.Q...)...)
		for _, class := range []string{"write", "read", "stat"} {
			baseV[class+" "+qp] = verdict(base, class, qp)
		}
	}
	for _, c := range cases {
		addRead := filehandler.GetExtraSet(names(c.RExt), names(c.RRaw))
		addWrite := filehandler.GetExtraSet(names(c.WExt), names(c.WRaw))
		_, _, _, h := config.GetConf("", work, prog, addRead, addWrite, false)
		for _, q := range qs {
			qp := filepath.Join(append([]string{t}, q.Q...)...)
			for _, class := range []string{"write", "read", "stat"} {
				out.Write(c18AsmObs{c18AsmCase: c, Q: q.Q, Class: class, Base: baseV[class+" "+qp], Got: verdict(h, class, qp)})
			}
		}
	}
	// the default policy assembled first, asked again after all the others were assembled (no extras: it must
	// still answer as it did)
	for _, q := range qs {
		qp := filepath.Join(append([]string{t}, q.Q...)...)
		for _, class := range []string{"write", "read", "stat"} {
			out.Write(c18AsmObs{c18AsmCase: c18AsmCase{RRaw: []string{}, RExt: []string{}, WRaw: []string{}, WExt: []string{}}, Q: q.Q, Class: class, Base: baseV[class+" "+qp], Got: verdict(base, class, qp)})
		}
	}
	return nil
}
