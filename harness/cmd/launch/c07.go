package main

func c07Main(args []string) error  { return nil }
func c07cMain(args []string) error { return nil }
