package main

import (
	"bufio"
	"encoding/json"
	"fmt"
	"os"
	"os/exec"
	"path/filepath"
	"strconv"
	"strings"
	"syscall"
	"time"

	"verifharness/hx"

	"github.com/criyle/go-sandbox/pkg/mount"
	"github.com/criyle/go-sandbox/pkg/rlimit"
	"golang.org/x/sys/unix"
)

// c07 <cases.ndjson> <obs.ndjson> <scratch> <probe> [strace]
// Every failing launch is induced by a REAL input (no fault-injection hook): the case names the
// step of Launch.tla that has to fail (fail, idx) and the recipe below arranges the input.
func c07Main(args []string) error {
	if err := setLauncherGroups(); err != nil {
		return fmt.Errorf("setgroups: %w", err)
	}
	if len(args) < 4 {
		return fmt.Errorf("usage: c07 cases obs scratch probe [strace]")
	}
	cases, err := hx.ReadLines[Case](args[0])
	if err != nil {
		return err
	}
	w, err := hx.NewLineWriter(args[1])
	if err != nil {
		return err
	}
	defer w.Close()
	e, err := newEnv(args[2], args[3])
	if err != nil {
		return err
	}
	defer e.close()
	e.Strace = len(args) > 4 && args[4] == "strace"
	// two bad executables next to the probe (visible as /bin/... in pivoted roots)
	os.WriteFile(filepath.Join(e.BinDir, "noexec"), []byte("#!/bin/true\n"), 0644)
	os.WriteFile(filepath.Join(e.BinDir, "garbage"), []byte("\x01\x02\x03 this is not an executable format\n"), 0755)
	for _, c := range cases {
		if c.Crash != "" {
			w.Write(crashCase(e, c))
			if !keepDirs {
				os.RemoveAll(fmt.Sprintf("%s/case-%d", e.Scratch, c.ID))
			}
			continue
		}
		p := c07Plan(e, c)
		ob := launchOne(e, p)
		w.Write(ob)
		if !keepDirs {
			os.RemoveAll(fmt.Sprintf("%s/case-%d", e.Scratch, c.ID))
		}
	}
	return nil
}

func c07Plan(e *Env, c Case) *plan {
	p := basePlan(e, c)
	if p.setupErr != "" {
		return p
	}
	r := p.r
	p.cbErr = c.Cb == "err"
	p.cbDelay = 15 * time.Millisecond
	dir := filepath.Join(e.Scratch, fmt.Sprintf("case-%d", c.ID))
	binPrefix := e.BinDir
	if c.Opt.Pivot {
		binPrefix = "/bin"
	}
	id1 := []syscall.SysProcIDMap{{ContainerID: 0, HostID: 0, Size: 1}}
	switch c.Fail {
	case "none":
	case "clone": // CgroupFd that is not a cgroup directory: clone3 fails
		r.CgroupFd = e.NotCgFile.Fd()
	case "idmap": // overlapping extents: the kernel refuses the uid_map write
		r.UIDMappings = []syscall.SysProcIDMap{{ContainerID: 0, HostID: 0, Size: 10}, {ContainerID: 5, HostID: 5, Size: 10}}
	case "keepcaps": // launcher thread has NO_SETUID_FIXUP locked off
		p.secbits = 8
	case "dropA_secbits": // launcher thread has NOROOT locked off
		p.secbits = 2
	case "setgroups": // no gid map given: the parent writes "deny" to /proc/<pid>/setgroups
		r.GIDMappings = nil
		r.GIDMappingsEnableSetgroups = false
	case "setgid": // requested gid not mapped (groups are)
		r.GIDMappings = id1
		r.Credential.Groups = []uint32{0}
		p.req.Groups = []int{0}
	case "setuid": // requested uid not mapped
		r.UIDMappings = id1
	case "fds": // a listed descriptor is not open
		p.extraFiles = []uintptr{1000}
		unix.Close(1000)
	case "pivot_tmpfs": // pivot root is not a directory
		f := filepath.Join(dir, "rootfile")
		os.WriteFile(f, nil, 0644)
		r.PivotRoot = f
	case "pivot_root": // "old_root" already exists in the new root
		m := mount.Mount{Source: filepath.Join(dir, "wd"), Target: "old_root", Flags: unix.MS_BIND}
		sp, err := m.ToSyscall()
		if err != nil {
			p.setupErr = err.Error()
			return p
		}
		r.Mounts = append(r.Mounts, *sp)
	case "mounts": // bind source of mount idx does not exist
		if c.Idx >= len(r.Mounts) {
			p.setupErr = "mount index out of range"
			return p
		}
		ms := []mount.Mount{
			{Source: e.BinDir, Target: "bin", Flags: unix.MS_BIND | unix.MS_RDONLY},
			{Source: filepath.Join(dir, "wd"), Target: "w", Flags: unix.MS_BIND},
			{Source: "/proc", Target: "proc", Flags: unix.MS_BIND | unix.MS_REC},
		}
		ms[c.Idx].Source = filepath.Join(dir, "no-such-source")
		r.Mounts = r.Mounts[:0]
		for _, m := range ms {
			sp, err := m.ToSyscall()
			if err != nil {
				p.setupErr = err.Error()
				return p
			}
			r.Mounts = append(r.Mounts, *sp)
		}
	case "mounts_mkdir": // target of mount idx can not be created (name too long)
		if c.Idx >= len(r.Mounts) {
			p.setupErr = "mount index out of range"
			return p
		}
		ms := []mount.Mount{
			{Source: e.BinDir, Target: "bin", Flags: unix.MS_BIND | unix.MS_RDONLY},
			{Source: filepath.Join(dir, "wd"), Target: "w", Flags: unix.MS_BIND},
			{Source: "/proc", Target: "proc", Flags: unix.MS_BIND | unix.MS_REC},
		}
		ms[c.Idx].Target = strings.Repeat("n", 300)
		r.Mounts = r.Mounts[:0]
		for _, m := range ms {
			sp, err := m.ToSyscall()
			if err != nil {
				p.setupErr = err.Error()
				return p
			}
			r.Mounts = append(r.Mounts, *sp)
		}
	case "chdir": // work directory does not exist
		r.WorkDir = filepath.Join(p.req.WorkDir, "no-such-dir")
	case "rlimits": // limit idx is above the hard limit (no CAP_SYS_RESOURCE)
		var cur syscall.Rlimit
		syscall.Getrlimit(unix.RLIMIT_NOFILE, &cur)
		benign := rlimit.RLimit{Res: unix.RLIMIT_CORE, Rlim: syscall.Rlimit{Cur: 0, Max: 0}}
		r.RLimits = []rlimit.RLimit{benign, benign, benign}
		if c.Idx >= len(r.RLimits) {
			p.setupErr = "rlimit index out of range"
			return p
		}
		r.RLimits[c.Idx] = rlimit.RLimit{Res: unix.RLIMIT_NOFILE, Rlim: syscall.Rlimit{Cur: cur.Max + 1, Max: cur.Max + 1}}
		p.req.RLimits = 3
	case "seccompA", "seccompB": // invalid BPF program (length 0)
		r.Seccomp = &syscall.SockFprog{Len: 0, Filter: &allowAll[0]}
	case "exec":
		switch c.Idx {
		case 0: // missing
			r.Args[0] = binPrefix + "/no-such-program"
		case 1: // not executable
			r.Args[0] = binPrefix + "/noexec"
		default: // malformed
			r.Args[0] = binPrefix + "/garbage"
		}
	default:
		p.setupErr = "no recipe for step " + c.Fail
	}
	if c.Tbl == "low" {
		// (only used for launches that must not run the program: the table carries no report pipe)
		p.lowTable = true
		r.Args = r.Args[:2]
	}
	return p
}

func c07cMain(args []string) error { return c07cRun(args) }

// c07h <scratch> <probe> <case.json> : the helper launcher process of the launcher-death cases.  It
// performs ONE launch whose SyncFunc announces the child's pid on stdout and then never returns: it
// exits the whole process (crash = "exit") or blocks until the driver SIGKILLs the process ("kill").
// Either way the sync socket closes without an ack and nobody kills the child.
func c07hMain(args []string) error {
	if err := setLauncherGroups(); err != nil {
		return fmt.Errorf("setgroups: %w", err)
	}
	if len(args) < 3 {
		return fmt.Errorf("usage: c07h scratch probe case.json")
	}
	cs, err := hx.ReadLines[Case](args[2])
	if err != nil || len(cs) != 1 {
		return fmt.Errorf("bad case file: %v", err)
	}
	c := cs[0]
	e := &Env{Scratch: args[0], Probe: args[1], BinDir: filepath.Dir(args[1])}
	e.SelfExe, _ = os.Readlink("/proc/self/exe")
	p := c07Plan(e, c)
	p.cbDelay = 0
	p.cbHook = func(pid int) {
		fmt.Printf("CB %d\n", pid)
		os.Stdout.Sync()
		if c.Crash == "exit" {
			os.Exit(0)
		}
		select {}
	}
	ob := launchOne(e, p)
	fmt.Printf("RETURNED %v %s %s\n", ob.Started, ob.Err.Msg, ob.Setup)
	return nil
}

// crashCase runs one launcher-death case: helper launcher dies inside its callback, the child is an
// orphan; give it time, look for the marker and for the orphan, then clean up by nonce.
func crashCase(e *Env, c Case) Obs {
	ob := Obs{Ev: "Observe", ID: c.ID, Opt: c.Opt, Fail: c.Fail, Idx: c.Idx, CbRes: c.Cb, Crash: c.Crash, Self: emptySelf(),
		Out: Outside{NS: nsMap(func(string) string { return "" })}, PNS: nsOf("self"), PIDs: []int{os.Getuid(), os.Getgid()},
		PGroups: []int{}, Stops: []string{}, Exit: "none", Orphan: "gone", DPid: os.Getpid()}
	ob.Req.Groups = []int{}
	ob.Cb.NSpidN = []int{}
	dir := filepath.Join(e.Scratch, fmt.Sprintf("case-%d", c.ID)) // the nonce: part of every involved command line
	os.MkdirAll(dir, 0755)
	cf := filepath.Join(dir, "case.json")
	b, _ := json.Marshal(c)
	os.WriteFile(cf, append(b, '\n'), 0644)
	marker := filepath.Join(dir, "wd", "marker")
	cmd := exec.Command(e.SelfExe, "c07h", e.Scratch, e.Probe, cf)
	cmd.Stderr = os.Stderr
	out, err := cmd.StdoutPipe()
	if err != nil {
		ob.Setup = err.Error()
		return ob
	}
	if err := cmd.Start(); err != nil {
		ob.Setup = "helper: " + err.Error()
		return ob
	}
	lineCh := make(chan string, 1)
	go func() {
		l, _ := bufio.NewReader(out).ReadString('\n')
		lineCh <- l
	}()
	var line string
	select {
	case line = <-lineCh:
	case <-time.After(30 * time.Second):
	}
	child := 0
	if strings.HasPrefix(line, "CB ") {
		child, _ = strconv.Atoi(strings.TrimSpace(line[3:]))
		ob.Cb.Called = 1
		ob.Cb.Pid = child
	}
	if c.Crash == "kill" || child == 0 {
		cmd.Process.Kill()
	}
	cmd.Wait()
	// the child is an orphan now; a child that saw EOF is gone within milliseconds, one that took EOF for
	// approval has exec'd within milliseconds: wait until it is gone, at most 1.5 s
	alive := func() string {
		if child == 0 {
			return "gone"
		}
		st, err := os.ReadFile(fmt.Sprintf("/proc/%d/status", child))
		cl, _ := os.ReadFile(fmt.Sprintf("/proc/%d/cmdline", child))
		if err != nil || !strings.Contains(string(cl), dir) {
			return "gone"
		}
		state := strings.SplitN(statusField(string(st), "State"), " ", 2)[0]
		if state == "Z" || state == "X" {
			return "gone"
		}
		exe, _ := os.Readlink(fmt.Sprintf("/proc/%d/exe", child))
		is := "other"
		if exe == e.SelfExe {
			is = "launcher"
		} else if exe == e.Probe {
			is = "target"
		}
		return "alive:" + state + ":" + is
	}
	deadline := time.Now().Add(1500 * time.Millisecond)
	time.Sleep(20 * time.Millisecond)
	for {
		ob.Orphan = alive()
		if ob.Orphan == "gone" || time.Now().After(deadline) {
			break
		}
		if strings.HasSuffix(ob.Orphan, ":target") {
			ob.Cb.ExeIs = "target"
		}
		time.Sleep(10 * time.Millisecond)
	}
	_, e1 := os.Lstat(marker)
	ob.Marker = e1 == nil
	// clean up by nonce: every process whose command line mentions this case's directory
	ents, _ := os.ReadDir("/proc")
	for _, d := range ents {
		pid, err := strconv.Atoi(d.Name())
		if err != nil || pid == os.Getpid() {
			continue
		}
		cl, _ := os.ReadFile("/proc/" + d.Name() + "/cmdline")
		if strings.Contains(string(cl), dir) {
			unix.Kill(pid, unix.SIGKILL)
		}
	}
	return ob
}
