package main

import (
	"fmt"
	"os"
	"path/filepath"
	"strings"
	"syscall"
	"time"

	"verifharness/hx"

	"github.com/criyle/go-sandbox/pkg/mount"
	"github.com/criyle/go-sandbox/pkg/rlimit"
	"golang.org/x/sys/unix"
)

// c07 <cases.ndjson> <obs.ndjson> <scratch> <probe> [strace]
// Every failing launch is induced by a REAL input (no fault-injection hook): the case names the
// step of Launch.tla that has to fail (fail, idx) and the recipe below arranges the input.
func c07Main(args []string) error {
	if len(args) < 4 {
		return fmt.Errorf("usage: c07 cases obs scratch probe [strace]")
	}
	cases, err := hx.ReadLines[Case](args[0])
	if err != nil {
		return err
	}
	w, err := hx.NewLineWriter(args[1])
	if err != nil {
		return err
	}
	defer w.Close()
	e, err := newEnv(args[2], args[3])
	if err != nil {
		return err
	}
	defer e.close()
	e.Strace = len(args) > 4 && args[4] == "strace"
	// two bad executables next to the probe (visible as /bin/... in pivoted roots)
	os.WriteFile(filepath.Join(e.BinDir, "noexec"), []byte("#!/bin/true\n"), 0644)
	os.WriteFile(filepath.Join(e.BinDir, "garbage"), []byte("\x01\x02\x03 this is not an executable format\n"), 0755)
	for _, c := range cases {
		p := c07Plan(e, c)
		ob := launchOne(e, p)
		w.Write(ob)
		if !keepDirs {
			os.RemoveAll(fmt.Sprintf("%s/case-%d", e.Scratch, c.ID))
		}
	}
	return nil
}

func c07Plan(e *Env, c Case) *plan {
	p := basePlan(e, c)
	if p.setupErr != "" {
		return p
	}
	r := p.r
	p.cbErr = c.Cb == "err"
	p.cbDelay = 15 * time.Millisecond
	dir := filepath.Join(e.Scratch, fmt.Sprintf("case-%d", c.ID))
	binPrefix := e.BinDir
	if c.Opt.Pivot {
		binPrefix = "/bin"
	}
	id1 := []syscall.SysProcIDMap{{ContainerID: 0, HostID: 0, Size: 1}}
	switch c.Fail {
	case "none":
	case "clone": // CgroupFd that is not a cgroup directory: clone3 fails
		r.CgroupFd = e.NotCgFile.Fd()
	case "idmap": // overlapping extents: the kernel refuses the uid_map write
		r.UIDMappings = []syscall.SysProcIDMap{{ContainerID: 0, HostID: 0, Size: 10}, {ContainerID: 5, HostID: 5, Size: 10}}
	case "keepcaps": // launcher thread has NO_SETUID_FIXUP locked off
		p.secbits = 8
	case "dropA_secbits": // launcher thread has NOROOT locked off
		p.secbits = 2
	case "setgroups": // no gid map given: the parent writes "deny" to /proc/<pid>/setgroups
		r.GIDMappings = nil
		r.GIDMappingsEnableSetgroups = false
	case "setgid": // requested gid not mapped (groups are)
		r.GIDMappings = id1
		r.Credential.Groups = []uint32{0}
		p.req.Groups = []int{0}
	case "setuid": // requested uid not mapped
		r.UIDMappings = id1
	case "fds": // a listed descriptor is not open
		p.extraFiles = []uintptr{1000}
		unix.Close(1000)
	case "pivot_tmpfs": // pivot root is not a directory
		f := filepath.Join(dir, "rootfile")
		os.WriteFile(f, nil, 0644)
		r.PivotRoot = f
	case "pivot_root": // "old_root" already exists in the new root
		m := mount.Mount{Source: filepath.Join(dir, "wd"), Target: "old_root", Flags: unix.MS_BIND}
		sp, err := m.ToSyscall()
		if err != nil {
			p.setupErr = err.Error()
			return p
		}
		r.Mounts = append(r.Mounts, *sp)
	case "mounts": // bind source of mount idx does not exist
		if c.Idx >= len(r.Mounts) {
			p.setupErr = "mount index out of range"
			return p
		}
		ms := []mount.Mount{
			{Source: e.BinDir, Target: "bin", Flags: unix.MS_BIND | unix.MS_RDONLY},
			{Source: filepath.Join(dir, "wd"), Target: "w", Flags: unix.MS_BIND},
			{Source: "/proc", Target: "proc", Flags: unix.MS_BIND | unix.MS_REC},
		}
		ms[c.Idx].Source = filepath.Join(dir, "no-such-source")
		r.Mounts = r.Mounts[:0]
		for _, m := range ms {
			sp, err := m.ToSyscall()
			if err != nil {
				p.setupErr = err.Error()
				return p
			}
			r.Mounts = append(r.Mounts, *sp)
		}
	case "mounts_mkdir": // target of mount idx can not be created (name too long)
		if c.Idx >= len(r.Mounts) {
			p.setupErr = "mount index out of range"
			return p
		}
		ms := []mount.Mount{
			{Source: e.BinDir, Target: "bin", Flags: unix.MS_BIND | unix.MS_RDONLY},
			{Source: filepath.Join(dir, "wd"), Target: "w", Flags: unix.MS_BIND},
			{Source: "/proc", Target: "proc", Flags: unix.MS_BIND | unix.MS_REC},
		}
		ms[c.Idx].Target = strings.Repeat("n", 300)
		r.Mounts = r.Mounts[:0]
		for _, m := range ms {
			sp, err := m.ToSyscall()
			if err != nil {
				p.setupErr = err.Error()
				return p
			}
			r.Mounts = append(r.Mounts, *sp)
		}
	case "chdir": // work directory does not exist
		r.WorkDir = filepath.Join(p.req.WorkDir, "no-such-dir")
	case "rlimits": // limit idx is above the hard limit (no CAP_SYS_RESOURCE)
		var cur syscall.Rlimit
		syscall.Getrlimit(unix.RLIMIT_NOFILE, &cur)
		benign := rlimit.RLimit{Res: unix.RLIMIT_CORE, Rlim: syscall.Rlimit{Cur: 0, Max: 0}}
		r.RLimits = []rlimit.RLimit{benign, benign, benign}
		if c.Idx >= len(r.RLimits) {
			p.setupErr = "rlimit index out of range"
			return p
		}
		r.RLimits[c.Idx] = rlimit.RLimit{Res: unix.RLIMIT_NOFILE, Rlim: syscall.Rlimit{Cur: cur.Max + 1, Max: cur.Max + 1}}
		p.req.RLimits = 3
	case "seccompA", "seccompB": // invalid BPF program (length 0)
		r.Seccomp = &syscall.SockFprog{Len: 0, Filter: &allowAll[0]}
	case "exec":
		switch c.Idx {
		case 0: // missing
			r.Args[0] = binPrefix + "/no-such-program"
		case 1: // not executable
			r.Args[0] = binPrefix + "/noexec"
		default: // malformed
			r.Args[0] = binPrefix + "/garbage"
		}
	default:
		p.setupErr = "no recipe for step " + c.Fail
	}
	return p
}

func c07cMain(args []string) error { return c07cRun(args) }
