package main

import (
	"bufio"
	"encoding/json"
	"errors"
	"fmt"
	"os"
	"path/filepath"
	"runtime"
	"strconv"
	"strings"
	"syscall"
	"time"

	"github.com/criyle/go-sandbox/pkg/forkexec"
	"github.com/criyle/go-sandbox/pkg/mount"
	"github.com/criyle/go-sandbox/pkg/rlimit"
	"golang.org/x/sys/unix"
)

// Opt is the option record enumerated by TLC (spec/Launch*.tla, same field names).
type Opt struct {
	Cred     bool   `json:"cred"`
	DropCaps bool   `json:"dropcaps"`
	NNP      bool   `json:"nnp"`
	Seccomp  bool   `json:"seccomp"`
	Ptrace   bool   `json:"ptrace"`
	Stop     bool   `json:"stop"`
	Sync     bool   `json:"sync"`
	UCG      bool   `json:"ucg"`
	Pivot    bool   `json:"pivot"`
	User     bool   `json:"user"`
	Pid      bool   `json:"pid"`
	Mnt      bool   `json:"mnt"`
	Uts      bool   `json:"uts"`
	Ipc      bool   `json:"ipc"`
	Net      bool   `json:"net"`
	CgNs     bool   `json:"cgns"`
	CgFd     bool   `json:"cgfd"`
	Amb      bool   `json:"amb"`
	Grp      string `json:"grp"`  // several | one | empty | nosg  (Credential.Groups / NoSetGroups)
	Hn       string `json:"hn"`   // none | short | long  (HostName, only with uts)
	Dn       string `json:"dn"`   // none | short | long  (DomainName, only with uts)
	Gmap     string `json:"gmap"` // allow | deny  (GIDMappingsEnableSetgroups of the gid map given with a user namespace)
}

// LauncherGroups are the supplementary groups every launcher process of this family gives itself, so that
// "the program inherited the launcher's groups" can be told from "the program has no / the requested groups".
var LauncherGroups = []int{4242, 4343}

func setLauncherGroups() error { return syscall.Setgroups(LauncherGroups) }

// Case is one launch request.  Fail/Idx/Cb are used by C07 only ("none" for C04).
type Case struct {
	ID    int    `json:"id"`
	Opt   Opt    `json:"opt"`
	Fail  string `json:"fail"`  // step label of Launch.tla whose real failing input is arranged
	Idx   int    `json:"idx"`   // mount / rlimit index for indexed steps
	Cb    string `json:"cb"`    // "ok" | "err" (only meaningful with opt.sync)
	Crash string `json:"crash"` // "" | "exit" | "kill": a helper launcher process dies inside the callback
	Tbl   string `json:"tbl"`   // "" = descriptor table of three fresh pipes | "low": table whose later slots hold LOWER numbers
}

// Self is the probe's self-report (probes/launch.c).
type Self struct {
	CapOK          bool              `json:"capok"`
	Eff            []int             `json:"eff"`
	Perm           []int             `json:"perm"`
	Inh            []int             `json:"inh"`
	Bnd            []int             `json:"bnd"`
	Amb            []int             `json:"amb"`
	SecBits        int               `json:"secbits"`
	NNP            int               `json:"nnp"`
	SeccompPrctl   int               `json:"seccomp_prctl"`
	UIDs           []int             `json:"uids"`
	GIDs           []int             `json:"gids"`
	Groups         []int             `json:"groups"`
	Pid            int               `json:"pid"`
	PPid           int               `json:"ppid"`
	Sid            int               `json:"sid"`
	Pgid           int               `json:"pgid"`
	Cwd            string            `json:"cwd"`
	Host           string            `json:"host"`
	Domain         string            `json:"domain"`
	Proc           bool              `json:"proc"`
	SeccompStatus  string            `json:"seccomp_status"`
	NNPStatus      string            `json:"nnp_status"`
	NSpid          string            `json:"nspid"`
	Tracer         string            `json:"tracer"`
	NS             map[string]string `json:"ns"`
	SeccompFilters string            `json:"seccomp_filters"`
	PersonaErrno   int               `json:"persona_errno"`
	NoFile         int               `json:"nofile"`
	EnvQ           string            `json:"envq"`
	RootID         string            `json:"rootid"`
	Argc           int               `json:"argc"`
}

func emptySelf() Self {
	return Self{Eff: []int{}, Perm: []int{}, Inh: []int{}, Bnd: []int{}, Amb: []int{}, UIDs: []int{}, GIDs: []int{},
		Groups: []int{}, NS: nsMap(func(string) string { return "" })}
}

var nsNames = []string{"user", "pid", "mnt", "uts", "ipc", "net", "cgroup"}

func nsMap(f func(string) string) map[string]string {
	m := map[string]string{}
	for _, n := range nsNames {
		m[n] = f(n)
	}
	return m
}

func nsOf(pid string) map[string]string {
	return nsMap(func(n string) string {
		var st unix.Stat_t
		if unix.Stat("/proc/"+pid+"/ns/"+n, &st) != nil {
			return ""
		}
		return strconv.FormatUint(st.Ino, 10)
	})
}

// Outside is what the driver sees of the started program through /proc/<pid> while the probe
// is blocked on its stdin (second witness, independent of the probe's own report).
type Outside struct {
	OK      bool              `json:"ok"`
	NS      map[string]string `json:"ns"`
	Seccomp string            `json:"seccomp"`
	NNP     string            `json:"nnp"`
	CapEff  string            `json:"capeff"`
	CapPrm  string            `json:"capprm"`
	CapInh  string            `json:"capinh"`
	CapAmb  string            `json:"capamb"`
	Uid     string            `json:"uid"`
	Gid     string            `json:"gid"`
	Groups  string            `json:"groups"`
	NSpid   string            `json:"nspid"`
	PPid    string            `json:"ppid"`
	Sid     string            `json:"sid"` // session id from /proc/<pid>/stat (host numbering)
	Exe     string            `json:"exe"`
	Cgroup  string            `json:"cgroup"` // the "0::" line of /proc/<pid>/cgroup
}

func statusField(st, key string) string {
	for _, l := range strings.Split(st, "\n") {
		if strings.HasPrefix(l, key+":") {
			return strings.Join(strings.Fields(l[len(key)+1:]), " ")
		}
	}
	return ""
}

func outsideOf(pid int) Outside {
	p := strconv.Itoa(pid)
	o := Outside{NS: nsOf(p)}
	b, err := os.ReadFile("/proc/" + p + "/status")
	if err != nil {
		return o
	}
	st := string(b)
	o.OK = true
	o.Seccomp = statusField(st, "Seccomp")
	o.NNP = statusField(st, "NoNewPrivs")
	o.CapEff = statusField(st, "CapEff")
	o.CapPrm = statusField(st, "CapPrm")
	o.CapInh = statusField(st, "CapInh")
	o.CapAmb = statusField(st, "CapAmb")
	o.Uid = statusField(st, "Uid")
	o.Gid = statusField(st, "Gid")
	o.Groups = statusField(st, "Groups")
	o.NSpid = statusField(st, "NSpid")
	o.PPid = statusField(st, "PPid")
	if s, err := os.ReadFile("/proc/" + p + "/stat"); err == nil {
		// pid (comm) state ppid pgrp session ...
		if i := strings.LastIndexByte(string(s), ')'); i > 0 {
			f := strings.Fields(string(s)[i+1:])
			if len(f) > 3 {
				o.Sid = f[3]
			}
		}
	}
	o.Exe, _ = os.Readlink("/proc/" + p + "/exe")
	if c, err := os.ReadFile("/proc/" + p + "/cgroup"); err == nil {
		for _, l := range strings.Split(string(c), "\n") {
			if strings.HasPrefix(l, "0::") {
				o.Cgroup = l[3:]
			}
		}
	}
	return o
}

// CbObs is what the sync callback saw (C07: strictly before the target's first instruction).
type CbObs struct {
	Called int    `json:"called"` // number of invocations
	Pid    int    `json:"pid"`
	Exe    string `json:"exe"`    // readlink /proc/<pid>/exe at callback time
	ExeIs  string `json:"exe_is"` // "launcher" | "target" | "other" | "" (classified by path identity only)
	PPid   string `json:"ppid"`
	NSpid  string `json:"nspid"`
	NSpidN []int  `json:"nspidn"` // NSpid as numbers: pid in the caller's namespace first
	Marker bool   `json:"marker"` // marker file already present at callback time
	State  string `json:"state"`  // process state letter at callback time
}

// ErrObs is the error returned by Start, field by field.
type ErrObs struct {
	IsChildErr bool   `json:"is_child_err"`
	Loc        string `json:"loc"`  // ErrorLocation.String()
	LocN       int    `json:"locn"` // numeric constant
	Idx        int    `json:"idx"`
	Errno      int    `json:"errno"`
	Msg        string `json:"msg"`
}

// Req holds the concrete values the driver requested for the symbolic options.
type Req struct {
	UID     int    `json:"uid"`
	GID     int    `json:"gid"`
	Groups  []int  `json:"groups"`
	WorkDir string `json:"wd"`   // as the target should see it
	Host    string `json:"host"` // "" = not requested
	Domain  string `json:"domain"`
	Cgroup  string `json:"cgroup"` // cgroup2 path requested with CgroupFd ("" = none)
	Mounts  int    `json:"mounts"`
	RLimits int    `json:"rlimits"`
}

// Obs is one observation line.
type Obs struct {
	Ev      string            `json:"ev"`
	ID      int               `json:"id"`
	Opt     Opt               `json:"opt"`
	Fail    string            `json:"fail"`
	Idx     int               `json:"idx"`
	CbRes   string            `json:"cb"`
	Req     Req               `json:"req"`
	Started bool              `json:"started"` // Start returned a pid and no error
	Err     ErrObs            `json:"err"`
	HostPid int               `json:"hostpid"`
	DPid    int               `json:"dpid"`   // the driver's own pid
	Report  bool              `json:"report"` // the probe's self-report was received
	Self    Self              `json:"self"`
	Out     Outside           `json:"out"`
	PNS     map[string]string `json:"pns"`  // launcher's namespaces
	PIDs    []int             `json:"pids"` // launcher's ruid, rgid
	PGroups []int             `json:"pgroups"`
	PHost   string            `json:"phost"`
	PDomain string            `json:"pdomain"`
	Strace  bool              `json:"strace"`
	Crash   string            `json:"crash"`
	Tbl     string            `json:"tbl"`
	Level   string            `json:"level"`  // "" = forkexec.Runner directly | unshare | ptrace (runner-level launch)
	Caller  int               `json:"caller"` // runner-level launches: uid of the calling process
	Sock    string            `json:"sock"`   // low-table cases: first descriptor number that was free when Start was called
	Orphan  string            `json:"orphan"` // launcher death cases: "gone" | "alive:<state>:<exe>" after the grace period
	Cb      CbObs             `json:"cbobs"`
	Marker  bool              `json:"marker"` // marker file exists after everything ended
	Wait    string            `json:"wait"`   // wait4(-1, WNOHANG) right after Start returned an error: echild | running | zombie
	Kids    string            `json:"kids"`   // /proc/self/task/*/children right after Start returned
	Exit    string            `json:"exit"`   // how the child ended when the driver reaped it: "exit:N" | "signal:N" | "none"
	Stops   []string          `json:"stops"`  // stops the driver handled as tracer / job-control parent
	Setup   string            `json:"setup"`  // non-empty: the driver could not arrange the case
	Hang    string            `json:"hang"`   // non-empty: Start was blocked in read() while its child sat in an untraced group-stop
	WallUs  int               `json:"wall_us"`
}

// Env is the per-run environment shared by all launches of one driver invocation.
type Env struct {
	Scratch   string
	Probe     string // absolute path of the static probe
	BinDir    string
	SelfExe   string
	CgPath    string // cgroup2 directory for CgroupFd ("" = unavailable)
	CgRel     string
	CgFile    *os.File
	NotCgFile *os.File // a directory that is not a cgroup (C07 clone3 failure)
	Strace    bool     // emit marker syscalls
}

func newEnv(scratch, probe string) (*Env, error) {
	e := &Env{Scratch: scratch, Probe: probe, BinDir: filepath.Dir(probe)}
	e.SelfExe, _ = os.Readlink("/proc/self/exe")
	name := fmt.Sprintf("vlaunch-%d", os.Getpid())
	for _, base := range []string{"/sys/fs/cgroup/unified", "/sys/fs/cgroup"} {
		if _, err := os.Stat(filepath.Join(base, "cgroup.procs")); err != nil {
			continue
		}
		// groups left behind by killed drivers (empty ones can simply be removed)
		if old, _ := filepath.Glob(filepath.Join(base, "vlaunch-*")); len(old) > 0 {
			for _, o := range old {
				if pid, _ := strconv.Atoi(strings.TrimPrefix(filepath.Base(o), "vlaunch-")); pid > 0 && unix.Kill(pid, 0) == unix.ESRCH {
					os.Remove(o)
				}
			}
		}
		p := filepath.Join(base, name)
		if err := os.Mkdir(p, 0755); err != nil {
			continue
		}
		f, err := os.Open(p)
		if err != nil {
			os.Remove(p)
			continue
		}
		e.CgPath, e.CgRel, e.CgFile = p, "/"+name, f
		break
	}
	nd := filepath.Join(scratch, "notcg")
	os.MkdirAll(nd, 0755)
	e.NotCgFile, _ = os.Open(nd)
	return e, nil
}

func (e *Env) close() {
	if e.CgFile != nil {
		e.CgFile.Close()
		for i := 0; i < 50; i++ {
			if os.Remove(e.CgPath) == nil {
				break
			}
			time.Sleep(10 * time.Millisecond)
		}
	}
	if e.NotCgFile != nil {
		e.NotCgFile.Close()
	}
}

var allowAll = []syscall.SockFilter{{Code: 0x06, K: 0x7fff0000}}

// plan is everything launchOne needs; built by the C04 / C07 planners.
type plan struct {
	c          Case
	r          *forkexec.Runner
	req        Req
	marker     string // host path of the marker file ("" = none)
	secbits    int    // >= 0: set the launcher thread's securebits to this value first
	closeFd    []int  // descriptors the planner opened; closed after the launch
	cbErr      bool
	cbDelay    time.Duration
	extraFiles []uintptr
	lowTable   bool          // Files = a table whose later slots hold lower numbers, sized so that the temporary copies reach the status socket
	cbHook     func(pid int) // runs first thing inside the callback
	hold       bool
	setupErr   string
}

func basePlan(e *Env, c Case) *plan {
	o := c.Opt
	id := c.ID
	p := &plan{c: c, secbits: -1, hold: true}
	dir := filepath.Join(e.Scratch, fmt.Sprintf("case-%d", id))
	wd := filepath.Join(dir, "wd")
	if err := os.MkdirAll(wd, 0777); err != nil {
		p.setupErr = err.Error()
		return p
	}
	os.Chmod(dir, 0755)
	os.Chmod(wd, 0777)
	p.marker = filepath.Join(wd, "marker")
	r := &forkexec.Runner{Env: []string{"PATH=/bin"}}
	p.r = r
	var flags uintptr
	for _, x := range []struct {
		on bool
		f  uintptr
	}{{o.User, unix.CLONE_NEWUSER}, {o.Pid, unix.CLONE_NEWPID}, {o.Mnt, unix.CLONE_NEWNS}, {o.Uts, unix.CLONE_NEWUTS},
		{o.Ipc, unix.CLONE_NEWIPC}, {o.Net, unix.CLONE_NEWNET}, {o.CgNs, unix.CLONE_NEWCGROUP}} {
		if x.on {
			flags |= x.f
		}
	}
	r.CloneFlags = flags
	exe := e.Probe
	markerArg := p.marker
	p.req.WorkDir = wd
	if o.Pivot {
		root := filepath.Join(dir, "root")
		os.MkdirAll(root, 0755)
		r.PivotRoot = root
		b := mount.NewBuilder().WithBind(e.BinDir, "bin", true).WithBind(wd, "w", false).
			WithMount(mount.Mount{Source: "/proc", Target: "proc", Flags: unix.MS_BIND | unix.MS_REC})
		m, err := b.Build()
		if err != nil {
			p.setupErr = "mount build: " + err.Error()
			return p
		}
		r.Mounts = m
		exe = "/bin/" + filepath.Base(e.Probe)
		markerArg = "/w/marker"
		p.req.WorkDir = "/w"
	}
	p.req.Mounts = len(r.Mounts)
	r.WorkDir = p.req.WorkDir
	r.Args = []string{exe, markerArg, "hold"}
	if o.Uts {
		// four strings of four different lengths and different content
		switch o.Hn {
		case "none":
		case "long":
			p.req.Host = fmt.Sprintf("host-long-%d-abcdefgh", id)
		default:
			p.req.Host = fmt.Sprintf("h%d", id)
		}
		switch o.Dn {
		case "none":
		case "short":
			p.req.Domain = fmt.Sprintf("dom%d", id)
		default:
			p.req.Domain = fmt.Sprintf("domain-very-long-%d-zyxwvutsrqpo.example", id)
		}
		r.HostName, r.DomainName = p.req.Host, p.req.Domain
	}
	if o.User {
		r.UIDMappings = []syscall.SysProcIDMap{{ContainerID: 0, HostID: 0, Size: 65536}}
		r.GIDMappings = []syscall.SysProcIDMap{{ContainerID: 0, HostID: 0, Size: 65536}}
		r.GIDMappingsEnableSetgroups = o.Gmap != "deny"
	}
	p.req.Groups = []int{}
	if o.Cred {
		k := id % 500
		p.req.UID, p.req.GID = 1000+k, 2000+k
		r.Credential = &syscall.Credential{Uid: uint32(p.req.UID), Gid: uint32(p.req.GID)}
		switch o.Grp {
		case "one":
			p.req.Groups = []int{3000 + k}
		case "empty":
		case "nosg": // nothing requested: the list is ignored by the launcher
			r.Credential.NoSetGroups = true
			r.Credential.Groups = []uint32{uint32(3000 + k)}
		default:
			p.req.Groups = []int{3000 + k, 4000 + k}
		}
		for _, g := range p.req.Groups {
			r.Credential.Groups = append(r.Credential.Groups, uint32(g))
		}
	}
	r.DropCaps = o.DropCaps
	r.NoNewPrivs = o.NNP
	if o.Seccomp {
		r.Seccomp = &syscall.SockFprog{Len: uint16(len(allowAll)), Filter: &allowAll[0]}
	}
	r.Ptrace = o.Ptrace
	r.StopBeforeSeccomp = o.Stop
	r.UnshareCgroupAfterSync = o.UCG
	if o.CgFd {
		if e.CgFile == nil {
			p.setupErr = "no cgroup2 directory available"
			return p
		}
		r.CgroupFd = e.CgFile.Fd()
		p.req.Cgroup = e.CgRel
	}
	r.RLimits = []rlimit.RLimit{{Res: unix.RLIMIT_CORE, Rlim: syscall.Rlimit{Cur: 0, Max: 0}}}
	p.req.RLimits = len(r.RLimits)
	return p
}

func cstr(b []byte) string {
	for i, c := range b {
		if c == 0 {
			return string(b[:i])
		}
	}
	return string(b)
}

func capget() (hdr unix.CapUserHeader, data [2]unix.CapUserData, err error) {
	hdr = unix.CapUserHeader{Version: unix.LINUX_CAPABILITY_VERSION_3}
	err = unix.Capget(&hdr, &data[0])
	return
}

// raiseAmbient makes the calling thread's inheritable set equal to its permitted set and raises
// every permitted capability into the ambient set: without a cap drop the started program
// then keeps capabilities across execve even as a non-root user.
func raiseAmbient() error {
	hdr, data, err := capget()
	if err != nil {
		return err
	}
	data[0].Inheritable = data[0].Permitted
	data[1].Inheritable = data[1].Permitted
	if err := unix.Capset(&hdr, &data[0]); err != nil {
		return fmt.Errorf("capset: %w", err)
	}
	for i := 0; i < 64; i++ {
		w := data[i/32].Permitted
		if w&(1<<(uint(i)%32)) != 0 {
			if err := unix.Prctl(unix.PR_CAP_AMBIENT, unix.PR_CAP_AMBIENT_RAISE, uintptr(i), 0, 0); err != nil {
				return fmt.Errorf("ambient raise %d: %w", i, err)
			}
		}
	}
	return nil
}

func readKids() string {
	var sb strings.Builder
	ents, _ := os.ReadDir("/proc/self/task")
	for _, t := range ents {
		b, _ := os.ReadFile("/proc/self/task/" + t.Name() + "/children")
		sb.WriteString(strings.TrimSpace(string(b)))
		if len(b) > 0 {
			sb.WriteString(" ")
		}
	}
	return strings.TrimSpace(sb.String())
}

func strMarker(e *Env, s string) {
	if e.Strace {
		unix.Faccessat(unix.AT_FDCWD, s, 0, 0)
	}
}

// launchOne performs one launch on a fresh locked OS thread and returns the observation.
func launchOne(e *Env, p *plan) Obs {
	ch := make(chan Obs, 1)
	go func() {
		runtime.LockOSThread() // never unlocked: the thread (with its modified credentials) dies with the goroutine
		ch <- launchLocked(e, p)
	}()
	select {
	case ob := <-ch:
		return ob
	case <-time.After(40 * time.Second):
	}
	// the launch is wedged: kill whatever children exist so that Start gets EOF, and report a set-up failure
	for _, f := range strings.Fields(readKids()) {
		if k, _ := strconv.Atoi(f); k > 0 {
			unix.Kill(k, unix.SIGKILL)
		}
	}
	select {
	case ob := <-ch:
		ob.Setup = "driver: launch did not finish within 40 s (children killed)"
		return ob
	case <-time.After(10 * time.Second):
	}
	return Obs{Ev: "Observe", ID: p.c.ID, Opt: p.c.Opt, Fail: p.c.Fail, Idx: p.c.Idx, CbRes: p.c.Cb, Req: p.req, Self: emptySelf(),
		Out: Outside{NS: nsMap(func(string) string { return "" })}, PNS: nsOf("self"), PIDs: []int{0, 0}, PGroups: []int{},
		Stops: []string{}, Setup: "driver: launch wedged"}
}

func launchLocked(e *Env, p *plan) (ob Obs) {
	c := p.c
	ob = Obs{Ev: "Observe", ID: c.ID, Opt: c.Opt, Fail: c.Fail, Idx: c.Idx, CbRes: c.Cb, Tbl: c.Tbl, Req: p.req, Self: emptySelf(),
		Out: Outside{NS: nsMap(func(string) string { return "" })}, Exit: "none", Wait: "", Stops: []string{}}
	if ob.Req.Groups == nil {
		ob.Req.Groups = []int{}
	}
	ob.DPid = os.Getpid()
	ob.Cb.NSpidN = []int{}
	ob.PNS = nsOf("self")
	ob.PIDs = []int{os.Getuid(), os.Getgid()}
	g, _ := os.Getgroups()
	ob.PGroups = append([]int{}, g...)
	var un unix.Utsname
	unix.Uname(&un)
	ob.PHost, ob.PDomain = cstr(un.Nodename[:]), cstr(un.Domainname[:])
	ob.Strace = e.Strace
	defer func() {
		for _, fd := range p.closeFd {
			unix.Close(fd)
		}
	}()
	if p.setupErr != "" {
		ob.Setup = p.setupErr
		return
	}
	r := p.r
	// pipes: stdin (driver holds the write end), report (driver reads)
	var inP, outP [2]int
	if err := unix.Pipe2(inP[:], unix.O_CLOEXEC); err != nil {
		ob.Setup = "pipe: " + err.Error()
		return
	}
	if err := unix.Pipe2(outP[:], unix.O_CLOEXEC); err != nil {
		ob.Setup = "pipe: " + err.Error()
		return
	}
	closed := map[int]bool{}
	cl := func(fd int) {
		if !closed[fd] {
			closed[fd] = true
			unix.Close(fd)
		}
	}
	defer func() { cl(inP[0]); cl(inP[1]); cl(outP[0]); cl(outP[1]) }()
	if r.Files == nil {
		r.Files = append([]uintptr{uintptr(inP[0]), uintptr(outP[1]), 2}, p.extraFiles...)
	}

	if c.Opt.Sync {
		r.SyncFunc = func(pid int) error {
			strMarker(e, fmt.Sprintf("@@cb-%d", c.ID))
			if p.cbHook != nil {
				p.cbHook(pid)
			}
			if p.cbDelay > 0 {
				time.Sleep(p.cbDelay) // a blocked child stays blocked however long the callback takes
			}
			ob.Cb.Called++
			ob.Cb.Pid = pid
			ps := strconv.Itoa(pid)
			ob.Cb.Exe, _ = os.Readlink("/proc/" + ps + "/exe")
			switch ob.Cb.Exe {
			case e.SelfExe:
				ob.Cb.ExeIs = "launcher"
			case e.Probe:
				ob.Cb.ExeIs = "target"
			default:
				ob.Cb.ExeIs = "other"
			}
			if b, err := os.ReadFile("/proc/" + ps + "/status"); err == nil {
				ob.Cb.PPid = statusField(string(b), "PPid")
				ob.Cb.NSpid = statusField(string(b), "NSpid")
				for _, f := range strings.Fields(ob.Cb.NSpid) {
					k, _ := strconv.Atoi(f)
					ob.Cb.NSpidN = append(ob.Cb.NSpidN, k)
				}
				ob.Cb.State = strings.SplitN(statusField(string(b), "State"), " ", 2)[0]
			}
			if p.marker != "" {
				_, err := os.Lstat(p.marker)
				ob.Cb.Marker = err == nil
			}
			if p.cbErr {
				return errors.New("verif-callback-refuses")
			}
			return nil
		}
	}
	if c.Opt.Amb {
		if err := raiseAmbient(); err != nil {
			ob.Setup = "ambient: " + err.Error()
			return
		}
	}
	if p.secbits >= 0 {
		if err := unix.Prctl(unix.PR_SET_SECUREBITS, uintptr(p.secbits), 0, 0, 0); err != nil {
			ob.Setup = "securebits: " + err.Error()
			return
		}
	}
	t0 := time.Now()
	strMarker(e, fmt.Sprintf("@@case-%d", c.ID))
	if p.lowTable {
		// Start's socketpair takes the two lowest free numbers (a, b); the child's end is b.  Build a table of
		// n = b-3 slots whose slots 1.. hold numbers lower than their index: pass 1 of the child's descriptor
		// set-up then makes n-1 temporary copies at n+1 .. 2n-1, a range that contains b.
		fa, e1 := unix.Open("/dev/null", unix.O_RDONLY|unix.O_CLOEXEC, 0)
		fb, e2 := unix.Open("/dev/null", unix.O_RDONLY|unix.O_CLOEXEC, 0)
		if e1 != nil || e2 != nil || fb < 7 {
			ob.Setup = "low table: could not find the socketpair's numbers"
			return
		}
		unix.Close(fa)
		unix.Close(fb)
		n := fb - 3
		tbl := make([]uintptr, n)
		for i := range tbl {
			tbl[i] = uintptr((i + 2) % 3) // 2 0 1 0 1 2 0 1 2 ... : every slot from 1 on holds a number below its index
		}
		tbl[1], tbl[2] = 0, 1
		r.Files = tbl
		ob.Sock = strconv.Itoa(fb)
	}
	wdDone := make(chan struct{})
	wdRes := make(chan string, 1)
	go hangWatch(unix.Gettid(), e.Strace, wdDone, wdRes)
	pid, err := r.Start()
	close(wdDone)
	ob.Hang = <-wdRes
	strMarker(e, fmt.Sprintf("@@started-%d", c.ID))
	ob.WallUs = int(time.Since(t0) / time.Microsecond)
	ob.Kids = readKids()
	ob.HostPid = pid
	cl(inP[0])
	cl(outP[1])
	if err != nil {
		var ce forkexec.ChildError
		if errors.As(err, &ce) {
			ob.Err = ErrObs{IsChildErr: true, Loc: ce.Location.String(), LocN: int(ce.Location), Idx: ce.Index, Errno: int(ce.Err), Msg: err.Error()}
		} else {
			ob.Err = ErrObs{Msg: err.Error()}
			var en syscall.Errno
			if errors.As(err, &en) {
				ob.Err.Errno = int(en)
			}
		}
		// any child left?
		var ws unix.WaitStatus
		wp, werr := unix.Wait4(-1, &ws, unix.WNOHANG|unix.WALL, nil)
		switch {
		case werr == unix.ECHILD:
			ob.Wait = "echild"
		case werr == nil && wp == 0:
			ob.Wait = "running"
		case werr == nil:
			ob.Wait = "zombie"
		default:
			ob.Wait = "err:" + werr.Error()
		}
		if ob.Wait == "running" {
			// do not leave it behind for the next case
			for _, f := range strings.Fields(ob.Kids) {
				if k, _ := strconv.Atoi(f); k > 0 {
					unix.Kill(k, unix.SIGKILL)
					unix.Wait4(k, &ws, unix.WALL, nil)
				}
			}
		}
		if p.marker != "" {
			_, e1 := os.Lstat(p.marker)
			ob.Marker = e1 == nil
		}
		strMarker(e, fmt.Sprintf("@@end-%d", c.ID))
		return
	}
	ob.Started = true
	// Act as the minimal tracer / job-control parent until the report arrives or the child ends.
	rd := os.NewFile(uintptr(outP[0]), "report")
	closed[outP[0]] = true
	defer rd.Close()
	// The reader goroutine takes the probe's report, looks at /proc/<pid> from outside while the probe
	// is blocked on its stdin, then releases it.  This (locked) thread meanwhile is the minimal tracer /
	// job-control parent: it blocks in wait4 and handles every stop until the child is gone.
	type repRes struct {
		line []byte
		out  Outside
	}
	repCh := make(chan repRes, 1)
	stdinW := inP[1]
	closed[inP[1]] = true // owned by the reader goroutine from here on
	go func() {
		line, _ := bufio.NewReaderSize(rd, 32768).ReadBytes('\n')
		var out Outside
		if len(line) > 0 {
			out = outsideOf(pid)
		}
		unix.Close(stdinW)
		repCh <- repRes{line, out}
	}()
	handleStop := func(ws unix.WaitStatus) {
		sig := ws.StopSignal()
		ev := int(ws>>16) & 0xff
		if sig == unix.SIGTRAP {
			// exec of a traced child (plain SIGTRAP or PTRACE_EVENT_EXEC): let it run free
			if err := unix.PtraceDetach(pid); err == nil {
				ob.Stops = append(ob.Stops, fmt.Sprintf("trap%d:detach", ev))
				return
			}
		}
		if err := unix.PtraceCont(pid, 0); err == nil {
			ob.Stops = append(ob.Stops, fmt.Sprintf("%d:cont", int(sig)))
			return
		}
		unix.Kill(pid, unix.SIGCONT)
		ob.Stops = append(ob.Stops, fmt.Sprintf("%d:sigcont", int(sig)))
	}
	killer := time.AfterFunc(20*time.Second, func() { unix.Kill(pid, unix.SIGKILL) })
	for {
		var ws unix.WaitStatus
		wp, werr := unix.Wait4(pid, &ws, unix.WUNTRACED|unix.WALL, nil)
		if werr == unix.EINTR {
			continue
		}
		if werr != nil {
			ob.Exit = "waiterr:" + werr.Error()
			break
		}
		if wp == pid && ws.Stopped() {
			handleStop(ws)
			continue
		}
		if ws.Exited() {
			ob.Exit = fmt.Sprintf("exit:%d", ws.ExitStatus())
		} else if ws.Signaled() {
			ob.Exit = fmt.Sprintf("signal:%d", int(ws.Signal()))
		}
		break
	}
	if !killer.Stop() {
		ob.Setup = "timeout: the started program did not end within 20 s"
	}
	select {
	case rr := <-repCh:
		if len(rr.line) > 0 {
			sf := emptySelf()
			if err := json.Unmarshal(rr.line, &sf); err == nil {
				ob.Self = sf
				ob.Report = true
				ob.Out = rr.out
				if ob.Out.NS == nil {
					ob.Out.NS = nsMap(func(string) string { return "" })
				}
			} else {
				ob.Setup = "bad report: " + err.Error()
			}
		}
	case <-time.After(5 * time.Second):
		ob.Setup = "report reader did not finish"
	}
	if p.marker != "" {
		_, e1 := os.Lstat(p.marker)
		ob.Marker = e1 == nil
	}
	strMarker(e, fmt.Sprintf("@@end-%d", c.ID))
	return
}

// hangWatch witnesses the one stable deadlock Start can get into: the launcher thread blocked in
// read(2) on the sync socket while its child is in an untraced group-stop (it SIGSTOPped itself
// before writing the sync word).  Nothing inside Start can end that state.  When seen (twice,
// 100 ms apart, after a grace period) it is recorded and the child is continued so that the
// driver itself does not hang.
func hangWatch(tid int, strace bool, done chan struct{}, res chan string) {
	seen := 0
	hung := false
	t := time.NewTimer(150 * time.Millisecond)
	defer t.Stop()
	for {
		select {
		case <-done:
			if hung {
				res <- "stopped-child-while-start-blocked-in-read"
			} else {
				res <- ""
			}
			return
		case <-t.C:
		}
		t.Reset(50 * time.Millisecond)
		sc, _ := os.ReadFile(fmt.Sprintf("/proc/self/task/%d/syscall", tid))
		if !strings.HasPrefix(string(sc), "0 ") { // not in read(2)
			seen = 0
			continue
		}
		kids, _ := os.ReadFile(fmt.Sprintf("/proc/self/task/%d/children", tid))
		stopped := 0
		for _, f := range strings.Fields(string(kids)) {
			st, err := os.ReadFile("/proc/" + f + "/status")
			if err != nil {
				continue
			}
			state := statusField(string(st), "State")
			if (strings.HasPrefix(state, "T") && statusField(string(st), "TracerPid") == "0") ||
				(strace && (strings.HasPrefix(state, "T") || strings.HasPrefix(state, "t"))) {
				stopped, _ = strconv.Atoi(f)
			}
		}
		if stopped == 0 {
			seen = 0
			continue
		}
		seen++
		if seen >= 2 {
			hung = true
			unix.Kill(stopped, unix.SIGCONT)
		}
	}
}
