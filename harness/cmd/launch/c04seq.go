package main

import (
	"bufio"
	"context"
	"encoding/json"
	"fmt"
	"os"
	"path/filepath"
	"strconv"
	"syscall"
	"time"

	"verifharness/hx"

	"github.com/criyle/go-sandbox/container"
	"github.com/criyle/go-sandbox/pkg/mount"
	"github.com/criyle/go-sandbox/pkg/rlimit"
	"github.com/criyle/go-sandbox/pkg/seccomp"
	"github.com/criyle/go-sandbox/runner"
	"golang.org/x/sys/unix"
)

// COpt is the option record of one Execve of the container-sequence family (Launch_Gen!MkCOpt).
type COpt struct {
	Sec   string `json:"sec"`   // none | f1 | f2
	RL    bool   `json:"rl"`    // RLimits = [NOFILE 1234]
	Env   bool   `json:"env"`   // Env = [VQ=q<pos>]
	After bool   `json:"after"` // SyncAfterExec
}

// SCase is one element of the sequence run back to back on ONE container.Environment.
type SCase struct {
	Pos  int  `json:"pos"`
	COpt COpt `json:"copt"`
}

// SObs is what the program of that Execve started with.
type SObs struct {
	Ev         string `json:"ev"`
	Pos        int    `json:"pos"`
	COpt       COpt   `json:"copt"`
	Prev       COpt   `json:"prev"` // options of the Execve before it on the same environment (sec = "start" for the first)
	Normal     bool   `json:"normal"`
	Error      string `json:"error"`
	Report     bool   `json:"report"`
	Mode       int    `json:"mode"`    // PR_GET_SECCOMP
	Filters    int    `json:"filters"` // Seccomp_filters of /proc/self/status (-1 = unreadable)
	Persona    int    `json:"persona"` // errno of personality(0xffffffff): 0 | 77 (filter f1) | 78 (filter f2)
	NoFile     int    `json:"nofile"`
	BaseNoFile int    `json:"base_nofile"` // NOFILE limit of a program started with no RLimits on the fresh environment
	EnvQ       string `json:"envq"`
	ReqEnvQ    string `json:"req_envq"`
	CbCalled   int    `json:"cbcalled"`
	CbInit     bool   `json:"cbinit"` // the pid handed to SyncFunc was the container init (pid 1 inside)
	Setup      string `json:"setup"`
}

const seqNoFile = 1234

var (
	// f1: six instructions, personality -> errno 77
	filterF1 = seccomp.Filter{
		{Code: 0x20, K: 0},
		{Code: 0x15, Jt: 3, Jf: 0, K: unix.SYS_PERSONALITY},
		{Code: 0x15, Jt: 2, Jf: 0, K: 1000},
		{Code: 0x15, Jt: 1, Jf: 0, K: 1001},
		{Code: 0x06, K: 0x7fff0000},
		{Code: 0x06, K: 0x00050000 | 77},
	}
	// f2: four instructions with zero-valued fields, personality -> errno 78
	filterF2 = seccomp.Filter{
		{Code: 0x20, K: 0},
		{Code: 0x15, Jt: 0, Jf: 1, K: unix.SYS_PERSONALITY},
		{Code: 0x06, K: 0x00050000 | 78},
		{Code: 0x06, K: 0x7fff0000},
	}
)

// c04seq <cases.ndjson> <obs.ndjson> <scratch> <probe>
func c04seqMain(args []string) error {
	if len(args) < 4 {
		return fmt.Errorf("usage: c04seq cases obs scratch probe")
	}
	cases, err := hx.ReadLines[SCase](args[0])
	if err != nil {
		return err
	}
	w, err := hx.NewLineWriter(args[1])
	if err != nil {
		return err
	}
	defer w.Close()
	scratch, probe := args[2], args[3]
	root := filepath.Join(scratch, "seqroot")
	os.MkdirAll(root, 0755)
	mb := mount.NewDefaultBuilder().WithBind(filepath.Dir(probe), "vbin", true).WithTmpfs("w", "").WithTmpfs("tmp", "").FilterNotExist()
	var m container.Environment
	for try := 0; try < 6; try++ {
		m, err = (&container.Builder{Root: root, Mounts: mb.Mounts, Stderr: os.Stderr}).Build()
		if err == nil {
			break
		}
		time.Sleep(time.Duration(try+1) * 300 * time.Millisecond)
	}
	if err != nil {
		w.Write(SObs{Ev: "SObserve", Setup: "container build: " + err.Error()})
		return nil
	}
	defer m.Destroy()

	run := func(pos int, o COpt) SObs {
		ob := SObs{Ev: "SObserve", Pos: pos, COpt: o, Filters: -1}
		var inP, outP [2]int
		unix.Pipe2(inP[:], unix.O_CLOEXEC)
		unix.Pipe2(outP[:], unix.O_CLOEXEC)
		rd := os.NewFile(uintptr(outP[0]), "report")
		repCh := make(chan []byte, 1)
		go func() {
			line, _ := bufio.NewReaderSize(rd, 32768).ReadBytes('\n')
			unix.Close(inP[1])
			repCh <- line
		}()
		param := container.ExecveParam{
			Args:          []string{"/vbin/" + filepath.Base(probe), "-", "hold"},
			Env:           []string{"PATH=/bin"},
			Files:         []uintptr{uintptr(inP[0]), uintptr(outP[1]), 2},
			SyncAfterExec: o.After,
			SyncFunc: func(pid int) error {
				ob.CbCalled++
				ns := nspidOf(strconv.Itoa(pid))
				ob.CbInit = len(ns) > 0 && ns[len(ns)-1] == 1
				return nil
			},
		}
		switch o.Sec {
		case "f1":
			param.Seccomp = filterF1
		case "f2":
			param.Seccomp = filterF2
		}
		if o.RL {
			param.RLimits = []rlimit.RLimit{{Res: unix.RLIMIT_NOFILE, Rlim: syscall.Rlimit{Cur: seqNoFile, Max: seqNoFile}}}
		}
		if o.Env {
			ob.ReqEnvQ = fmt.Sprintf("q%d", pos)
			param.Env = append(param.Env, "VQ="+ob.ReqEnvQ)
		}
		ctx, cancel := context.WithTimeout(context.Background(), 20*time.Second)
		res := m.Execve(ctx, param)
		cancel()
		ob.Normal = res.Status == runner.StatusNormal
		ob.Error = res.Error
		unix.Close(inP[0])
		unix.Close(outP[1])
		select {
		case line := <-repCh:
			if len(line) > 0 {
				s := emptySelf()
				if err := json.Unmarshal(line, &s); err == nil {
					ob.Report = true
					ob.Mode, ob.Persona, ob.NoFile, ob.EnvQ = s.SeccompPrctl, s.PersonaErrno, s.NoFile, s.EnvQ
					if n, err := strconv.Atoi(s.SeccompFilters); err == nil {
						ob.Filters = n
					}
				}
			}
		case <-time.After(3 * time.Second):
		}
		rd.Close()
		return ob
	}
	// the reference for "no limit requested": a plain run on the fresh environment
	base := run(-1, COpt{Sec: "none"})
	if !base.Normal || !base.Report {
		w.Write(SObs{Ev: "SObserve", Setup: "baseline run on the fresh container failed: " + base.Error})
		return nil
	}
	prev := COpt{Sec: "none"} // the baseline run
	for _, c := range cases {
		ob := run(c.Pos, c.COpt)
		ob.Prev = prev
		ob.BaseNoFile = base.NoFile
		w.Write(ob)
		prev = c.COpt
		if m.Ping() != nil {
			w.Write(SObs{Ev: "SObserve", Pos: c.Pos + 1, Setup: "container unusable after position " + strconv.Itoa(c.Pos)})
			return nil
		}
	}
	return nil
}
