package main

import (
	"bufio"
	"context"
	"errors"
	"fmt"
	"os"
	"path/filepath"
	"strconv"
	"strings"
	"syscall"
	"time"

	"verifharness/hx"

	"github.com/criyle/go-sandbox/container"
	"github.com/criyle/go-sandbox/pkg/mount"
	"github.com/criyle/go-sandbox/pkg/rlimit"
	"github.com/criyle/go-sandbox/runner"
	"golang.org/x/sys/unix"
)

// CCase is one container Execve request (C07, container path).
type CCase struct {
	ID   int    `json:"id"`
	Mode string `json:"mode"` // "before" | "after"  (SyncAfterExec)
	Cb   string `json:"cb"`   // "ok" | "err"
	Fail string `json:"fail"` // "none" | "rlimits"
	Idx  int    `json:"idx"`
	UCG  bool   `json:"ucg"` // Builder.UnshareCgroupBeforeExec
}

// CObs is the observation of one container Execve.
type CObs struct {
	Ev       string   `json:"ev"`
	ID       int      `json:"id"`
	Mode     string   `json:"mode"`
	CbRes    string   `json:"cb"`
	Fail     string   `json:"fail"`
	Idx      int      `json:"idx"`
	UCG      bool     `json:"ucg"`
	Status   string   `json:"status"`
	Normal   bool     `json:"normal"` // Status == runner.StatusNormal
	Error    string   `json:"error"`
	ErrParts []string `json:"errparts"` // Error split at ": "
	Exit     int      `json:"exitstatus"`
	Cb       CbObs    `json:"cbobs"`
	CbPPidNS []int    `json:"cb_parent_nspid"` // NSpid of the callback pid's parent
	InitPid  int      `json:"initpid"`
	InitKids string   `json:"initkids"` // children of the container init after Execve returned
	Marker   bool     `json:"marker"`   // marker file exists in the container after Execve returned
	Report   bool     `json:"report"`
	Usable   bool     `json:"usable"` // Ping after the call
	Setup    string   `json:"setup"`
}

func kidsOf(pid int) string {
	var sb []string
	ents, _ := os.ReadDir(fmt.Sprintf("/proc/%d/task", pid))
	for _, t := range ents {
		b, _ := os.ReadFile(fmt.Sprintf("/proc/%d/task/%s/children", pid, t.Name()))
		sb = append(sb, strings.Fields(string(b))...)
	}
	return strings.Join(sb, " ")
}

func nspidOf(pid string) []int {
	out := []int{}
	b, err := os.ReadFile("/proc/" + pid + "/status")
	if err != nil {
		return out
	}
	for _, f := range strings.Fields(statusField(string(b), "NSpid")) {
		k, _ := strconv.Atoi(f)
		out = append(out, k)
	}
	return out
}

// c07c <cases.ndjson> <obs.ndjson> <scratch> <probe>
func c07cRun(args []string) error {
	if len(args) < 4 {
		return fmt.Errorf("usage: c07c cases obs scratch probe")
	}
	cases, err := hx.ReadLines[CCase](args[0])
	if err != nil {
		return err
	}
	w, err := hx.NewLineWriter(args[1])
	if err != nil {
		return err
	}
	defer w.Close()
	scratch, probe := args[2], args[3]
	selfExe, _ := os.Readlink("/proc/self/exe")
	envs := map[bool]container.Environment{}
	inits := map[bool]int{}
	defer func() {
		for _, m := range envs {
			m.Destroy()
		}
	}()
	build := func(ucg bool) (container.Environment, int, error) {
		before := kidsOf(os.Getpid())
		root := filepath.Join(scratch, fmt.Sprintf("croot-%v-%d", ucg, time.Now().UnixNano()))
		os.MkdirAll(root, 0755)
		mb := mount.NewDefaultBuilder().WithBind(filepath.Dir(probe), "vbin", true).WithTmpfs("w", "").WithTmpfs("tmp", "").FilterNotExist()
		b := &container.Builder{Root: root, Mounts: mb.Mounts, Stderr: os.Stderr, UnshareCgroupBeforeExec: ucg}
		m, err := b.Build()
		if err != nil {
			return nil, 0, err
		}
		initPid := 0
		have := map[string]bool{}
		for _, f := range strings.Fields(before) {
			have[f] = true
		}
		for _, f := range strings.Fields(kidsOf(os.Getpid())) {
			if !have[f] {
				initPid, _ = strconv.Atoi(f)
			}
		}
		return m, initPid, nil
	}
	for _, c := range cases {
		ob := CObs{Ev: "CObserve", ID: c.ID, Mode: c.Mode, CbRes: c.Cb, Fail: c.Fail, Idx: c.Idx, UCG: c.UCG, ErrParts: []string{},
			CbPPidNS: []int{}}
		ob.Cb.NSpidN = []int{}
		m := envs[c.UCG]
		if m == nil || m.Ping() != nil {
			if m != nil {
				m.Destroy()
			}
			var ip int
			for try := 0; try < 6; try++ { // Build pings the fresh init with a 3 s deadline: retry on a loaded machine
				m, ip, err = build(c.UCG)
				if err == nil {
					break
				}
				time.Sleep(time.Duration(try+1) * 300 * time.Millisecond)
			}
			if err != nil {
				ob.Setup = "container build: " + err.Error()
				w.Write(ob)
				continue
			}
			envs[c.UCG], inits[c.UCG] = m, ip
		}
		ob.InitPid = inits[c.UCG]
		marker := fmt.Sprintf("/w/marker-%d", c.ID)
		var inP, outP [2]int
		unix.Pipe2(inP[:], unix.O_CLOEXEC)
		unix.Pipe2(outP[:], unix.O_CLOEXEC)
		repCh := make(chan []byte, 1)
		rd := os.NewFile(uintptr(outP[0]), "report")
		go func() {
			line, _ := bufio.NewReaderSize(rd, 32768).ReadBytes('\n')
			if c.Cb == "ok" {
				unix.Close(inP[1]) // release the probe; with a refusing callback it stays blocked until killed
			}
			repCh <- line
		}()
		markerExists := func() bool {
			r, err := m.Open([]container.OpenCmd{{Path: marker, Flag: os.O_RDONLY}})
			if err != nil || len(r) != 1 {
				return false
			}
			if r[0].File != nil {
				r[0].File.Close()
			}
			return r[0].Err == nil
		}
		param := container.ExecveParam{
			Args:          []string{"/vbin/" + filepath.Base(probe), marker, "hold"},
			Env:           []string{"PATH=/bin"},
			Files:         []uintptr{uintptr(inP[0]), uintptr(outP[1]), 2},
			SyncAfterExec: c.Mode == "after",
			SyncFunc: func(pid int) error {
				time.Sleep(15 * time.Millisecond)
				ob.Cb.Called++
				ob.Cb.Pid = pid
				ps := strconv.Itoa(pid)
				ob.Cb.Exe, _ = os.Readlink("/proc/" + ps + "/exe")
				switch ob.Cb.Exe {
				case selfExe:
					ob.Cb.ExeIs = "launcher"
				case probe:
					ob.Cb.ExeIs = "target"
				default:
					ob.Cb.ExeIs = "other"
					if strings.HasSuffix(ob.Cb.Exe, "/"+filepath.Base(probe)) {
						ob.Cb.ExeIs = "target"
					}
				}
				if b, err := os.ReadFile("/proc/" + ps + "/status"); err == nil {
					ob.Cb.PPid = statusField(string(b), "PPid")
					ob.Cb.NSpid = statusField(string(b), "NSpid")
					ob.Cb.State = strings.SplitN(statusField(string(b), "State"), " ", 2)[0]
				}
				ob.Cb.NSpidN = nspidOf(ps)
				if ob.Cb.PPid != "" {
					ob.CbPPidNS = nspidOf(ob.Cb.PPid)
				}
				if c.Cb == "err" {
					return errors.New("verif-callback-refuses")
				}
				return nil
			},
		}
		if c.Fail == "rlimits" {
			var cur syscall.Rlimit
			syscall.Getrlimit(unix.RLIMIT_NOFILE, &cur)
			benign := rlimit.RLimit{Res: unix.RLIMIT_CORE, Rlim: syscall.Rlimit{Cur: 0, Max: 0}}
			param.RLimits = []rlimit.RLimit{benign, benign, benign}
			param.RLimits[c.Idx%3] = rlimit.RLimit{Res: unix.RLIMIT_NOFILE, Rlim: syscall.Rlimit{Cur: cur.Max + 1, Max: cur.Max + 1}}
		}
		ctx, cancel := context.WithTimeout(context.Background(), 20*time.Second)
		res := m.Execve(ctx, param)
		cancel()
		ob.Status = res.Status.String()
		ob.Normal = res.Status == runner.StatusNormal
		ob.Error = res.Error
		ob.Exit = res.ExitStatus
		if res.Error != "" {
			ob.ErrParts = strings.Split(res.Error, ": ")
		}
		ob.InitKids = kidsOf(ob.InitPid)
		unix.Close(inP[0])
		unix.Close(outP[1])
		if c.Cb != "ok" {
			unix.Close(inP[1])
		}
		select {
		case line := <-repCh:
			ob.Report = len(line) > 0
		case <-time.After(3 * time.Second):
		}
		rd.Close()
		ob.Usable = m.Ping() == nil
		if ob.Usable {
			ob.Marker = markerExists()
		}
		w.Write(ob)
	}
	return nil
}
