package main

// Driver of the `launch` family (C04, C07).  No oracle here: it arranges inputs, runs the real
// pkg/forkexec (and container) code and writes JSON lines describing what it saw; TLC judges.

import (
	"verifharness/hx"

	"github.com/criyle/go-sandbox/container"
)

func main() {
	// the container path re-executes this binary as the container init
	if err := container.Init(); err != nil {
		panic(err)
	}
	hx.Register("c04", c04Main)
	hx.Register("c07", c07Main)
	hx.Register("c07c", c07cMain)
	hx.Register("c07h", c07hMain)
	hx.Register("c04seq", c04seqMain)
	hx.Register("c04run", c04runMain)
	hx.Register("c04runh", c04runhMain)
	hx.Main()
}
