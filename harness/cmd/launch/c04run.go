package main

import (
	"bufio"
	"context"
	"encoding/json"
	"fmt"
	"os"
	"os/exec"
	"path/filepath"
	"syscall"
	"time"

	"verifharness/hx"

	"github.com/criyle/go-sandbox/pkg/seccomp"
	"github.com/criyle/go-sandbox/ptracer"
	"github.com/criyle/go-sandbox/runner"
	"github.com/criyle/go-sandbox/runner/ptrace"
	"github.com/criyle/go-sandbox/runner/unshare"
	"golang.org/x/sys/unix"
)

// RCase is one runner-level launch: the runner as its user sees it (runner/unshare.Runner or
// runner/ptrace.Runner), called by a process with the given uid.  Opt is the forkexec-level option record
// the runner is documented to produce (LaunchSteps!UnshareRunnerOpt / PtraceRunnerOpt): the judge holds the
// started program against Post(opt) exactly like a direct forkexec launch.
type RCase struct {
	ID     int    `json:"id"`
	Level  string `json:"level"`  // unshare | ptrace
	Caller int    `json:"caller"` // uid (= gid) of the calling process
	Opt    Opt    `json:"opt"`
}

type allowHandler struct{}

func (allowHandler) CheckRead(string) ptracer.TraceAction    { return ptracer.TraceAllow }
func (allowHandler) CheckWrite(string) ptracer.TraceAction   { return ptracer.TraceAllow }
func (allowHandler) CheckStat(string) ptracer.TraceAction    { return ptracer.TraceAllow }
func (allowHandler) CheckSyscall(string) ptracer.TraceAction { return ptracer.TraceAllow }

// c04run <cases.ndjson> <obs.ndjson> <scratch> <probe>: one helper process per case, running as the caller uid
func c04runMain(args []string) error {
	if len(args) < 4 {
		return fmt.Errorf("usage: c04run cases obs scratch probe")
	}
	cases, err := hx.ReadLines[RCase](args[0])
	if err != nil {
		return err
	}
	w, err := hx.NewLineWriter(args[1])
	if err != nil {
		return err
	}
	defer w.Close()
	scratch, probe := args[2], args[3]
	self, _ := os.Readlink("/proc/self/exe")
	os.Chmod(scratch, 0755)
	for _, c := range cases {
		dir := filepath.Join(scratch, fmt.Sprintf("rcase-%d", c.ID))
		os.MkdirAll(filepath.Join(dir, "wd"), 0777)
		os.Chmod(dir, 0755)
		os.Chmod(filepath.Join(dir, "wd"), 0777)
		cf := filepath.Join(dir, "case.json")
		b, _ := json.Marshal(c)
		os.WriteFile(cf, append(b, '\n'), 0644)
		cmd := exec.Command(self, "c04runh", scratch, probe, cf)
		cmd.Stderr = os.Stderr
		if c.Caller != 0 {
			cmd.SysProcAttr = &syscall.SysProcAttr{Credential: &syscall.Credential{Uid: uint32(c.Caller), Gid: uint32(c.Caller)}}
		}
		out, err := runWithTimeout(cmd, 60*time.Second)
		ob := Obs{}
		if err != nil || json.Unmarshal(out, &ob) != nil {
			ob = rObs(c)
			ob.Setup = fmt.Sprintf("runner helper failed: %v %s", err, string(out))
		}
		w.Write(ob)
		if !keepDirs {
			os.RemoveAll(dir)
		}
	}
	return nil
}

func runWithTimeout(cmd *exec.Cmd, d time.Duration) ([]byte, error) {
	outp, err := cmd.StdoutPipe()
	if err != nil {
		return nil, err
	}
	if err := cmd.Start(); err != nil {
		return nil, err
	}
	t := time.AfterFunc(d, func() { cmd.Process.Kill() })
	defer t.Stop()
	line, _ := bufio.NewReaderSize(outp, 1<<16).ReadBytes('\n')
	err = cmd.Wait()
	return line, err
}

func rObs(c RCase) Obs {
	ob := Obs{Ev: "Observe", ID: c.ID, Opt: c.Opt, Fail: "none", CbRes: "ok", Self: emptySelf(), Level: c.Level, Caller: c.Caller,
		Out: Outside{NS: nsMap(func(string) string { return "" })}, PNS: nsOf("self"), PIDs: []int{os.Getuid(), os.Getgid()},
		PGroups: []int{}, Stops: []string{}, Exit: "none", DPid: os.Getpid()}
	ob.Req.Groups = []int{}
	ob.Cb.NSpidN = []int{}
	return ob
}

// c04runh <scratch> <probe> <case.json>: runs ONE runner-level launch as the current user and prints the observation
func c04runhMain(args []string) error {
	if len(args) < 3 {
		return fmt.Errorf("usage: c04runh scratch probe case.json")
	}
	cs, err := hx.ReadLines[RCase](args[2])
	if err != nil || len(cs) != 1 {
		return fmt.Errorf("bad case file: %v", err)
	}
	c := cs[0]
	probe := args[1]
	dir := filepath.Dir(args[2])
	ob := rObs(c)
	if os.Getuid() != c.Caller {
		ob.Setup = fmt.Sprintf("helper runs as uid %d, wanted %d", os.Getuid(), c.Caller)
	}
	g, _ := os.Getgroups()
	ob.PGroups = append([]int{}, g...)
	var un unix.Utsname
	unix.Uname(&un)
	ob.PHost, ob.PDomain = cstr(un.Nodename[:]), cstr(un.Domainname[:])
	ob.Req.WorkDir = filepath.Join(dir, "wd")
	var inP, outP [2]int
	unix.Pipe2(inP[:], unix.O_CLOEXEC)
	unix.Pipe2(outP[:], unix.O_CLOEXEC)
	unix.Close(inP[1])
	rd := os.NewFile(uintptr(outP[0]), "report")
	repCh := make(chan []byte, 1)
	go func() {
		line, _ := bufio.NewReaderSize(rd, 32768).ReadBytes('\n')
		repCh <- line
	}()
	files := []uintptr{uintptr(inP[0]), uintptr(outP[1]), 2}
	argv := []string{probe, "-"}
	filter := seccomp.Filter(allowAll)
	limit := runner.Limit{TimeLimit: 20 * time.Second, MemoryLimit: runner.Size(1 << 30)}
	var sync func(int) error
	if c.Opt.Sync {
		sync = func(pid int) error { ob.Cb.Called++; ob.Cb.Pid = pid; return nil }
	}
	var res runner.Result
	ctx, cancel := context.WithTimeout(context.Background(), 30*time.Second)
	switch c.Level {
	case "unshare":
		ob.Req.Host, ob.Req.Domain = fmt.Sprintf("rh%d", c.ID), fmt.Sprintf("rdomain-%d.example", c.ID)
		r := &unshare.Runner{Args: argv, Env: []string{"PATH=/bin"}, WorkDir: ob.Req.WorkDir, Files: files, Limit: limit,
			Seccomp: filter, HostName: ob.Req.Host, DomainName: ob.Req.Domain, SyncFunc: sync}
		res = r.Run(ctx)
	case "ptrace":
		r := &ptrace.Runner{Args: argv, Env: []string{"PATH=/bin"}, WorkDir: ob.Req.WorkDir, Files: files, Limit: limit,
			Seccomp: filter, Handler: allowHandler{}, SyncFunc: sync}
		res = r.Run(ctx)
	default:
		ob.Setup = "unknown runner " + c.Level
	}
	cancel()
	unix.Close(inP[0])
	unix.Close(outP[1])
	ob.Started = res.Status == runner.StatusNormal
	if !ob.Started {
		ob.Err.Msg = res.Status.String() + ": " + res.Error
	}
	ob.Exit = fmt.Sprintf("exit:%d", res.ExitStatus)
	select {
	case line := <-repCh:
		if len(line) > 0 {
			s := emptySelf()
			if err := json.Unmarshal(line, &s); err == nil {
				ob.Self = s
				ob.Report = true
			}
		}
	case <-time.After(3 * time.Second):
	}
	b, _ := json.Marshal(ob)
	fmt.Println(string(b))
	return nil
}
