package main

import (
	"fmt"
	"os"

	"verifharness/hx"
)

// c04 <cases.ndjson> <obs.ndjson> <scratch> <probe> [strace]
// Starts every case for real (forkexec.Runner directly, probe as target) and writes one
// Observe line per launch.
func c04Main(args []string) error {
	if err := setLauncherGroups(); err != nil {
		return fmt.Errorf("setgroups: %w", err)
	}
	if len(args) < 4 {
		return fmt.Errorf("usage: c04 cases obs scratch probe [strace]")
	}
	cases, err := hx.ReadLines[Case](args[0])
	if err != nil {
		return err
	}
	w, err := hx.NewLineWriter(args[1])
	if err != nil {
		return err
	}
	defer w.Close()
	e, err := newEnv(args[2], args[3])
	if err != nil {
		return err
	}
	defer e.close()
	e.Strace = len(args) > 4 && args[4] == "strace"
	for _, c := range cases {
		p := basePlan(e, c)
		ob := launchOne(e, p)
		w.Write(ob)
		if !keepDirs {
			os.RemoveAll(fmt.Sprintf("%s/case-%d", e.Scratch, c.ID))
		}
	}
	return nil
}

var keepDirs = os.Getenv("VERIF_KEEP") != ""
