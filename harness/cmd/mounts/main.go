package main

// C05 driver (family "mounts"): builds every TLC-generated mount table for real, once through the
// namespace runner (runner/unshare -> forkexec raw in-child sequence) and once through the container
// (container.Builder -> container init sequence), runs the static probe inside and writes one
// observation line per sandbox.  No oracle here: TLC judges the lines (spec/Mounts_Judge.tla).

import (
	"bytes"
	"context"
	"encoding/json"
	"fmt"
	"io"
	"os"
	"path/filepath"
	"runtime/pprof"
	"sort"
	"strconv"
	"strings"
	"sync"
	"syscall"
	"time"

	"verifharness/hx"

	"github.com/criyle/go-sandbox/container"
	"github.com/criyle/go-sandbox/pkg/mount"
	"github.com/criyle/go-sandbox/pkg/seccomp"
	"github.com/criyle/go-sandbox/runner"
	"github.com/criyle/go-sandbox/runner/unshare"
	"golang.org/x/sys/unix"
)

func main() {
	// the container init process re-executes this binary: must be first
	if err := container.Init(); err != nil {
		fmt.Fprintln(os.Stderr, "container init:", err)
		os.Exit(1)
	}
	hx.Register("run", runMain)
	hx.Main()
}

// ---------------------------------------------------------------- case / observation records

type entry struct {
	API string   `json:"api"` // bind | tmpfs | proc (builder helpers) | raw (hand-written mount.Mount)
	Tgt []string `json:"tgt"`
	Src string   `json:"src"` // source id: d1.. s1.. m1.. l1.. devnull tmpfs proc
	Ro  bool     `json:"ro"`
	Fst string   `json:"fst"` // raw: file system type
	Fl  []string `json:"fl"`  // raw: exactly these MS_ flags
}

var msFlags = map[string]uintptr{
	"BIND": unix.MS_BIND, "RDONLY": unix.MS_RDONLY, "REC": unix.MS_REC, "PRIVATE": unix.MS_PRIVATE,
	"NOSUID": unix.MS_NOSUID, "NODEV": unix.MS_NODEV, "NOEXEC": unix.MS_NOEXEC, "NOATIME": unix.MS_NOATIME,
}

type link struct {
	Lp []string `json:"lp"`
	To string   `json:"to"`
}

type caseRec struct {
	ID      int        `json:"id"`
	Impl    string     `json:"impl"` // fork | cont
	Kinds   []string   `json:"kinds"`
	Ents    []entry    `json:"ents"`
	Links   []link     `json:"links"`   // empty: builder default
	MaskCfg [][]string `json:"maskcfg"` // empty: builder default
	MaskChk [][]string `json:"maskchk"` // paths the probe looks at
	Dyn     [][]string `json:"dyn"`     // further paths the probe tries to modify (below shared-propagation sources)
	LinkM   string     `json:"linkm"`
	MaskM   string     `json:"maskm"`
	DevNull bool       `json:"devnull"`
}

type treeEnt struct {
	P []string `json:"p"`
	T string   `json:"t"`
}

type opRes struct {
	Op string `json:"op"`
	E  int    `json:"e"`
}

type testRes struct {
	P   []string `json:"p"`
	K   string   `json:"k"`
	Ro  int      `json:"ro"`
	Ops []opRes  `json:"ops"`
}

type maskRes struct {
	P []string `json:"p"`
	S string   `json:"s"`
	N int      `json:"n"`
}

type miEnt struct {
	At   []string `json:"at"`
	Fs   string   `json:"fs"`
	Root string   `json:"root"` // source id for binds, "/" otherwise
	Opts []string `json:"opts"` // per-mount options (sorted)
	SbRo bool     `json:"sbro"`
	Prop string   `json:"prop"` // propagation from the optional fields: private | slave | shared | shared+slave
}

type obsRec struct {
	Case       caseRec   `json:"case"`
	Started    bool      `json:"started"`
	Attempts   int       `json:"attempts"` // failed launch attempts before this record
	Phase      string    `json:"phase"`    // where a failed launch failed ("" when started)
	Err        string    `json:"err"`
	Exit       int       `json:"exit"`
	Cwd        string    `json:"cwd"`
	Tree       []treeEnt `json:"tree"`
	Trunc      bool      `json:"trunc"`
	OldRoot    int       `json:"oldroot"`
	DotDot     bool      `json:"dotdot"`
	Canary     []string  `json:"canary"`
	Masks      []maskRes `json:"masks"`
	Masks2     []maskRes `json:"masks2"` // the masked paths as a second program in the same container sees them (after Reset)
	Second     bool      `json:"second"` // a second program was run
	Tests      []testRes `json:"tests"`
	Mi         []miEnt   `json:"mi"` // /proc/<pid>/mountinfo read by the driver just before exec
	HasMiIn    bool      `json:"hasmiin"`
	MiIn       []miEnt   `json:"miin"`       // /proc/self/mountinfo read by the probe (when proc is mounted)
	SrcFl      []string  `json:"srcfl"`      // statfs flags of the ordinary source directory (host fact)
	LockFl     []string  `json:"lockfl"`     // statfs flags of the "locked" source directory (host fact)
	ShareFl    []string  `json:"sharefl"`    // statfs flags of the shared-propagation source file system (host fact)
	FlipFl     []string  `json:"flipfl"`     // statfs flags of the flip file system when the sandbox runs (host fact)
	SrcShared  bool      `json:"srcshared"`  // that file system has shared propagation in the driver's namespace (host fact)
	DynMounted int       `json:"dynmounted"` // file systems the driver mounted below shared sources once the sandbox was set up
	// which of the maskable procfs entries exist on this kernel (host fact, from the host's /proc)
	ProcFacts []treeEnt `json:"procfacts"`
}

// what the probe prints (paths as strings)
type probeOut struct {
	Cwd  string `json:"cwd"`
	Tree []struct {
		P string `json:"p"`
		T string `json:"t"`
	} `json:"tree"`
	Trunc   bool     `json:"trunc"`
	Minfo   *string  `json:"minfo"`
	OldRoot int      `json:"oldroot"`
	DotDot  bool     `json:"dotdot"`
	Canary  []string `json:"canary"`
	Masks   []struct {
		P string `json:"p"`
		S string `json:"s"`
		N int    `json:"n"`
	} `json:"masks"`
	Tests []struct {
		P   string  `json:"p"`
		K   string  `json:"k"`
		Ro  int     `json:"ro"`
		Ops []opRes `json:"ops"`
	} `json:"tests"`
}

func comps(p string) []string {
	out := []string{}
	for _, c := range strings.Split(p, "/") {
		if c != "" {
			out = append(out, c)
		}
	}
	return out
}

func abs(c []string) string { return "/" + strings.Join(c, "/") }

// ---------------------------------------------------------------- environment of one run

type env struct {
	work     string // scratch directory of this run
	probe    *os.File
	locked   string // directory on a nosuid,nodev,noexec tmpfs (sources of the "locked" kinds)
	shared   string // directory on a tmpfs with SHARED propagation (sources of the "shared" kinds)
	shareFl  []string
	isShared bool // mountinfo of the driver says the tmpfs really is shared
	srcFl    []string
	lockFl   []string
	timeout  time.Duration
}

var allowAll = seccomp.Filter{{Code: 0x06, K: 0x7fff0000}} // BPF_RET|BPF_K SECCOMP_RET_ALLOW

func statfsFlags(p string) []string {
	var s syscall.Statfs_t
	if err := syscall.Statfs(p, &s); err != nil {
		return []string{"ERR"}
	}
	names := []struct {
		bit  int64
		name string
	}{{1, "RDONLY"}, {2, "NOSUID"}, {4, "NODEV"}, {8, "NOEXEC"}, {1024, "NOATIME"}, {2048, "NODIRATIME"}, {4096, "RELATIME"}}
	out := []string{}
	for _, n := range names {
		if int64(s.Flags)&n.bit != 0 {
			out = append(out, n.name)
		}
	}
	return out
}

// populate a source directory: inside, secret, secretd/inner
func mkSourceDir(d string) error {
	if err := os.MkdirAll(filepath.Join(d, "secretd"), 0777); err != nil {
		return err
	}
	for _, f := range []string{"inside", "secret", "secretd/inner"} {
		if err := os.WriteFile(filepath.Join(d, f), []byte("content of "+f+"\n"), 0666); err != nil {
			return err
		}
	}
	os.Chmod(d, 0777)
	os.Chmod(filepath.Join(d, "secretd"), 0777)
	return nil
}

type caseDirs struct {
	dir, root, src, canary, canaryName string
}

func (e *env) prepare(c caseRec) (*caseDirs, error) {
	cd := &caseDirs{dir: filepath.Join(e.work, fmt.Sprintf("c%d", c.ID))}
	cd.root = filepath.Join(cd.dir, "root")
	cd.src = filepath.Join(cd.dir, "src")
	cd.canaryName = fmt.Sprintf("vcanary%d", c.ID)
	cd.canary = filepath.Join(cd.src, cd.canaryName)
	if err := os.MkdirAll(cd.root, 0755); err != nil {
		return nil, err
	}
	if err := os.MkdirAll(cd.src, 0755); err != nil {
		return nil, err
	}
	if err := os.WriteFile(cd.canary, []byte("canary\n"), 0644); err != nil {
		return nil, err
	}
	flipMounted := false
	for _, en := range c.Ents {
		if en.API != "bind" && en.API != "raw" {
			continue
		}
		switch en.Src[0] {
		case 'd':
			if en.Src == "devnull" {
				continue
			}
			if err := mkSourceDir(filepath.Join(cd.src, en.Src)); err != nil {
				return nil, err
			}
		case 's':
			if err := os.WriteFile(filepath.Join(cd.src, en.Src), []byte("file source\n"), 0666); err != nil {
				return nil, err
			}
			os.Chmod(filepath.Join(cd.src, en.Src), 0666)
		case 'l':
			// on the locked tmpfs: one directory per case, with a canary next to the source as well
			ld := filepath.Join(e.locked, fmt.Sprintf("c%d", c.ID))
			if err := mkSourceDir(filepath.Join(ld, en.Src)); err != nil {
				return nil, err
			}
			if err := os.WriteFile(filepath.Join(ld, cd.canaryName), []byte("canary\n"), 0644); err != nil {
				return nil, err
			}
		case 'q':
			// on a tmpfs of its own that is read-only while the table is built and writable when the
			// sandbox runs (flipRO / flipRW)
			fd := e.flipDir(c)
			if !flipMounted {
				if err := os.MkdirAll(fd, 0755); err != nil {
					return nil, err
				}
				if err := syscall.Mount("vflip", fd, "tmpfs", 0, "mode=0777"); err != nil {
					return nil, fmt.Errorf("mount flip tmpfs: %v", err)
				}
				flipMounted = true
				if err := os.WriteFile(filepath.Join(fd, cd.canaryName), []byte("canary\n"), 0644); err != nil {
					return nil, err
				}
			}
			if err := mkSourceDir(filepath.Join(fd, en.Src)); err != nil {
				return nil, err
			}
		case 'p':
			// on the shared tmpfs; "dyn" is where the driver mounts a file system while the sandbox lives
			sd := filepath.Join(e.shared, fmt.Sprintf("c%d", c.ID))
			if err := mkSourceDir(filepath.Join(sd, en.Src)); err != nil {
				return nil, err
			}
			if err := os.MkdirAll(filepath.Join(sd, en.Src, "dyn"), 0777); err != nil {
				return nil, err
			}
			os.Chmod(filepath.Join(sd, en.Src, "dyn"), 0777)
			if err := os.WriteFile(filepath.Join(sd, cd.canaryName), []byte("canary\n"), 0644); err != nil {
				return nil, err
			}
		case 'm': // deliberately missing
		}
	}
	return cd, nil
}

// procFacts: type of /proc/<rest> on the host for every looked-at path below "proc"
func procFacts(c caseRec) []treeEnt {
	out := []treeEnt{}
	for _, m := range c.MaskChk {
		if len(m) < 2 || m[0] != "proc" {
			continue
		}
		fi, err := os.Lstat("/proc/" + strings.Join(m[1:], "/"))
		if err != nil {
			continue
		}
		t := "f"
		if fi.IsDir() {
			t = "d"
		}
		out = append(out, treeEnt{P: m[1:], T: t})
	}
	return out
}

func (e *env) srcPath(cd *caseDirs, c caseRec, id string) string {
	switch {
	case id == "devnull":
		return "/dev/null"
	case id[0] == 'l':
		return filepath.Join(e.locked, fmt.Sprintf("c%d", c.ID), id)
	case id[0] == 'p':
		return filepath.Join(e.shared, fmt.Sprintf("c%d", c.ID), id)
	case id[0] == 'q':
		return filepath.Join(e.flipDir(c), id)
	default:
		return filepath.Join(cd.src, id)
	}
}

func (e *env) cleanup(cd *caseDirs, c caseRec) {
	os.RemoveAll(cd.dir)
	os.RemoveAll(filepath.Join(e.locked, fmt.Sprintf("c%d", c.ID)))
	e.dynUmount(c)
	if e.hasFlip(c) {
		syscall.Unmount(e.flipDir(c), syscall.MNT_DETACH)
		os.Remove(e.flipDir(c))
	}
	os.RemoveAll(filepath.Join(e.shared, fmt.Sprintf("c%d", c.ID)))
}

// Sources of the "flip" kinds live on a tmpfs of their own (one per case, in the driver's private mount
// namespace).  The host state changes between the moment the mount table is built and the moment
// it is used: read-only while Builder.FilterNotExist / Build run, writable when the sandbox runs.
func (e *env) flipDir(c caseRec) string {
	return filepath.Join(e.work, "flip", fmt.Sprintf("c%d", c.ID))
}

func (e *env) flipFlags(c caseRec) []string {
	if !e.hasFlip(c) {
		return []string{}
	}
	return statfsFlags(e.flipDir(c))
}

func (e *env) hasFlip(c caseRec) bool {
	for _, en := range c.Ents {
		if (en.API == "bind" || en.API == "raw") && en.Src[0] == 'q' {
			return true
		}
	}
	return false
}

func (e *env) flip(c caseRec, ro bool) error {
	if !e.hasFlip(c) {
		return nil
	}
	fl := uintptr(syscall.MS_REMOUNT | syscall.MS_BIND)
	if ro {
		fl |= syscall.MS_RDONLY
	}
	return syscall.Mount("", e.flipDir(c), "", fl, "")
}

// dynMount: the host mounts a tmpfs with a marker file below every shared-propagation bind source.
// Called from the sync callback: the sandbox's namespace is complete, its program is about to be
// exec'd.  A sandbox whose mounts still receive propagation shows the new file system inside.
func (e *env) dynMount(c caseRec) int {
	n := 0
	for _, en := range c.Ents {
		if (en.API != "bind" && en.API != "raw") || en.Src[0] != 'p' {
			continue
		}
		d := filepath.Join(e.shared, fmt.Sprintf("c%d", c.ID), en.Src, "dyn")
		if err := syscall.Mount("vdyn", d, "tmpfs", 0, "mode=0777"); err != nil {
			continue
		}
		os.WriteFile(filepath.Join(d, "hostmarker"), []byte("mounted by the host while the sandbox was alive\n"), 0666)
		n++
	}
	return n
}

func (e *env) dynUmount(c caseRec) {
	for _, en := range c.Ents {
		if (en.API == "bind" || en.API == "raw") && en.Src[0] == 'p' {
			syscall.Unmount(filepath.Join(e.shared, fmt.Sprintf("c%d", c.ID), en.Src, "dyn"), syscall.MNT_DETACH)
		}
	}
}

// the mount table exactly as a client of the library writes it
func (e *env) builder(cd *caseDirs, c caseRec) *mount.Builder {
	b := mount.NewBuilder()
	for _, en := range c.Ents {
		tgt := strings.Join(en.Tgt, "/")
		switch en.API {
		case "bind":
			b.WithBind(e.srcPath(cd, c, en.Src), tgt, en.Ro)
		case "tmpfs":
			b.WithTmpfs(tgt, "")
		case "proc":
			b.WithProcRW(!en.Ro)
		case "raw":
			// a mount.Mount literal, the way a caller that does not use the helpers writes it
			var fl uintptr
			for _, n := range en.Fl {
				v, ok := msFlags[n]
				if !ok {
					panic("unknown flag name in case: " + n)
				}
				fl |= v
			}
			src := en.Src
			if fl&unix.MS_BIND != 0 {
				src = e.srcPath(cd, c, en.Src)
			}
			b.WithMount(mount.Mount{Source: src, Target: tgt, FsType: en.Fst, Flags: fl})
		}
	}
	return b.FilterNotExist()
}

func (e *env) probeArgs(cd *caseDirs, c caseRec, outfd int) []string {
	args := []string{"/vprobe-mounts", strconv.Itoa(outfd), "T:/"}
	seen := map[string]bool{"/": true}
	for _, en := range c.Ents {
		p := abs(en.Tgt)
		if !seen[p] {
			seen[p] = true
			args = append(args, "T:"+p)
		}
	}
	for _, d := range c.Dyn {
		if p := abs(d); !seen[p] {
			seen[p] = true
			args = append(args, "T:"+p)
		}
	}
	// masked paths are part of the visible tree: looked at first (M:), then the same modification
	// attempts as everywhere else (T:)
	for _, m := range c.MaskChk {
		args = append(args, "M:"+abs(m))
		if p := abs(m); !seen[p] {
			seen[p] = true
			args = append(args, "T:"+p)
		}
	}
	args = append(args, "C:"+cd.canaryName, "H:"+cd.canary)
	return args
}

// parse mountinfo text; src ids are recovered by stripping the case directories
func (e *env) parseMountinfo(cd *caseDirs, c caseRec, text string) []miEnt {
	out := []miEnt{}
	lockdir := filepath.Join(e.locked, fmt.Sprintf("c%d", c.ID))
	lockrel := strings.TrimPrefix(lockdir, e.locked) // root field of a bind from the locked tmpfs is relative to that fs
	for _, line := range strings.Split(text, "\n") {
		f := strings.Fields(line)
		if len(f) < 10 {
			continue
		}
		sep := -1
		for i := 6; i < len(f); i++ {
			if f[i] == "-" {
				sep = i
				break
			}
		}
		if sep < 0 || sep+3 > len(f) {
			continue
		}
		root := unescape(f[3])
		switch {
		case strings.HasPrefix(root, cd.src+"/"):
			root = strings.TrimPrefix(root, cd.src+"/")
		case strings.HasPrefix(root, lockrel+"/") && f[sep+1] == "tmpfs":
			root = strings.TrimPrefix(root, lockrel+"/") // same relative layout on the locked and on the shared tmpfs
		case len(root) == 3 && root[:2] == "/q" && f[sep+1] == "tmpfs":
			root = root[1:] // bind from the per-case flip tmpfs
		case root == "/null":
			root = "devnull"
		case strings.HasPrefix(root, "/.mask") && f[sep+1] == "tmpfs":
			root = "empty" // the (unlinked) empty file maskPath binds over files when there is no /dev/null
		}
		opts := []string{}
		for _, o := range strings.Split(f[5], ",") {
			if o != "rw" {
				opts = append(opts, o)
			}
		}
		sort.Strings(opts)
		sbro := false
		if sep+3 < len(f) {
			for _, o := range strings.Split(f[sep+3], ",") {
				if o == "ro" {
					sbro = true
				}
			}
		}
		prop := "private"
		sh, sl := false, false
		for _, tag := range f[6:sep] {
			if strings.HasPrefix(tag, "shared:") {
				sh = true
			}
			if strings.HasPrefix(tag, "master:") {
				sl = true
			}
		}
		switch {
		case sh && sl:
			prop = "shared+slave"
		case sh:
			prop = "shared"
		case sl:
			prop = "slave"
		}
		out = append(out, miEnt{At: comps(unescape(f[4])), Fs: f[sep+1], Root: root, Opts: opts, SbRo: sbro, Prop: prop})
	}
	return out
}

func unescape(s string) string {
	// mountinfo escapes space, tab, newline, backslash as \ooo
	if !strings.Contains(s, "\\") {
		return s
	}
	var b strings.Builder
	for i := 0; i < len(s); i++ {
		if s[i] == '\\' && i+3 < len(s) {
			if v, err := strconv.ParseUint(s[i+1:i+4], 8, 8); err == nil {
				b.WriteByte(byte(v))
				i += 3
				continue
			}
		}
		b.WriteByte(s[i])
	}
	return b.String()
}

func (e *env) fill(o *obsRec, cd *caseDirs, c caseRec, raw []byte) error {
	var p probeOut
	if err := json.Unmarshal(bytes.TrimSpace(raw), &p); err != nil {
		return fmt.Errorf("probe output unreadable (%d bytes): %v", len(raw), err)
	}
	o.Cwd = p.Cwd
	o.Trunc = p.Trunc
	o.OldRoot = p.OldRoot
	o.DotDot = p.DotDot
	o.Canary = append([]string{}, p.Canary...)
	o.Tree = []treeEnt{}
	for _, t := range p.Tree {
		o.Tree = append(o.Tree, treeEnt{P: comps(t.P), T: t.T})
	}
	sort.Slice(o.Tree, func(i, j int) bool { return abs(o.Tree[i].P) < abs(o.Tree[j].P) })
	o.Masks = []maskRes{}
	for _, m := range p.Masks {
		o.Masks = append(o.Masks, maskRes{P: comps(m.P), S: m.S, N: m.N})
	}
	o.Tests = []testRes{}
	for _, t := range p.Tests {
		ops := t.Ops
		if ops == nil {
			ops = []opRes{}
		}
		o.Tests = append(o.Tests, testRes{P: comps(t.P), K: t.K, Ro: t.Ro, Ops: ops})
	}
	o.MiIn = []miEnt{}
	if p.Minfo != nil {
		o.HasMiIn = true
		o.MiIn = e.parseMountinfo(cd, c, *p.Minfo)
	}
	return nil
}

// phase of a failed fork launch: the error location name without index ("mount(2): ..." -> "mount")
func forkPhase(msg string) string {
	i := strings.Index(msg, ":")
	if i < 0 {
		return msg
	}
	loc := msg[:i]
	if j := strings.LastIndex(loc, "("); j > 0 && strings.HasSuffix(loc, ")") {
		if _, err := strconv.Atoi(loc[j+1 : len(loc)-1]); err == nil {
			loc = loc[:j]
		}
	}
	return loc
}

type pipeReader struct {
	r, w *os.File
	buf  bytes.Buffer
	done chan struct{}
}

func newPipeReader() (*pipeReader, error) {
	r, w, err := os.Pipe()
	if err != nil {
		return nil, err
	}
	p := &pipeReader{r: r, w: w, done: make(chan struct{})}
	go func() {
		io.Copy(&p.buf, r)
		close(p.done)
	}()
	return p, nil
}

func (p *pipeReader) finish() []byte {
	p.w.Close()
	<-p.done
	p.r.Close()
	return p.buf.Bytes()
}

func (e *env) runFork(c caseRec) (o obsRec, err error) {
	o = obsRec{Case: c, SrcFl: e.srcFl, LockFl: e.lockFl, ShareFl: e.shareFl, SrcShared: e.isShared, ProcFacts: procFacts(c), Mi: []miEnt{}, MiIn: []miEnt{}, Tree: []treeEnt{}, Canary: []string{}, Masks: []maskRes{}, Masks2: []maskRes{}, Tests: []testRes{}, FlipFl: []string{}}
	cd, err := e.prepare(c)
	if err != nil {
		return o, err
	}
	defer e.cleanup(cd, c)
	if err := e.flip(c, true); err != nil {
		return o, err
	}
	params, err := e.builder(cd, c).Build()
	if ferr := e.flip(c, false); ferr != nil {
		return o, ferr
	}
	o.FlipFl = e.flipFlags(c)
	if err != nil {
		o.Phase, o.Err = "build", err.Error()
		return o, nil
	}
	pr, err := newPipeReader()
	if err != nil {
		return o, err
	}
	null, err := os.Open("/dev/null")
	if err != nil {
		pr.finish()
		return o, err
	}
	defer null.Close()
	var mi string
	dyn := 0
	r := &unshare.Runner{
		Args:     e.probeArgs(cd, c, 1),
		Env:      []string{"PATH=/"},
		ExecFile: e.probe.Fd(),
		WorkDir:  "/",
		Files:    []uintptr{null.Fd(), pr.w.Fd(), pr.w.Fd()},
		Limit:    runner.Limit{TimeLimit: time.Hour, MemoryLimit: runner.Size(1 << 40)},
		Seccomp:  allowAll,
		Root:     cd.root,
		Mounts:   params,
		HostName: "vmounts", DomainName: "vmounts",
		SyncFunc: func(pid int) error {
			dyn = e.dynMount(c)
			b, rerr := os.ReadFile(fmt.Sprintf("/proc/%d/mountinfo", pid))
			if rerr != nil {
				return rerr
			}
			mi = string(b)
			return nil
		},
	}
	ctx, cancel := context.WithTimeout(context.Background(), e.timeout)
	res := r.Run(ctx)
	cancel()
	raw := pr.finish()
	o.Mi = e.parseMountinfo(cd, c, mi)
	o.DynMounted = dyn
	if res.Status == runner.StatusRunnerError {
		o.Phase, o.Err = forkPhase(res.Error), res.Error
		return o, nil
	}
	o.Exit = res.ExitStatus
	if res.Status != runner.StatusNormal {
		return o, fmt.Errorf("case %d: probe ended with %v (%s) exit=%d out=%q", c.ID, res.Status, res.Error, res.ExitStatus, truncate(raw))
	}
	o.Started = true
	if err := e.fill(&o, cd, c, raw); err != nil {
		return o, fmt.Errorf("case %d: %v", c.ID, err)
	}
	return o, nil
}

func truncate(b []byte) string {
	if len(b) > 300 {
		return string(b[:300]) + "..."
	}
	return string(b)
}

type lockedBuf struct {
	mu sync.Mutex
	b  bytes.Buffer
}

func (l *lockedBuf) Write(p []byte) (int, error) {
	l.mu.Lock()
	defer l.mu.Unlock()
	return l.b.Write(p)
}
func (l *lockedBuf) String() string {
	l.mu.Lock()
	defer l.mu.Unlock()
	return l.b.String()
}

func (e *env) runCont(c caseRec) (o obsRec, err error) {
	o = obsRec{Case: c, SrcFl: e.srcFl, LockFl: e.lockFl, ShareFl: e.shareFl, SrcShared: e.isShared, ProcFacts: procFacts(c), Mi: []miEnt{}, MiIn: []miEnt{}, Tree: []treeEnt{}, Canary: []string{}, Masks: []maskRes{}, Masks2: []maskRes{}, Tests: []testRes{}, FlipFl: []string{}}
	cd, err := e.prepare(c)
	if err != nil {
		return o, err
	}
	defer e.cleanup(cd, c)
	if err := e.flip(c, true); err != nil {
		return o, err
	}
	mb := e.builder(cd, c)
	if ferr := e.flip(c, false); ferr != nil {
		return o, ferr
	}
	o.FlipFl = e.flipFlags(c)
	var links []container.SymbolicLink
	for _, l := range c.Links {
		links = append(links, container.SymbolicLink{LinkPath: abs(l.Lp), Target: l.To})
	}
	var masks []string
	for _, m := range c.MaskCfg {
		masks = append(masks, abs(m))
	}
	stderr := &lockedBuf{}
	b := container.Builder{
		Root:          cd.root,
		Mounts:        mb.Mounts,
		SymbolicLinks: links,
		MaskPaths:     masks,
		WorkDir:       "/",
		Stderr:        stderr,
		// the namespaces of runner/unshare; no network / ipc namespace (irrelevant here, slow to create)
		CloneFlags: unshare.UnshareFlags,
	}
	if len(mb.Mounts) == 0 {
		// an empty table would silently be replaced by the default mounts: not a case of this check
		return o, fmt.Errorf("case %d: empty effective table for the container", c.ID)
	}
	envc, err := b.Build()
	if err != nil {
		// give the init process a moment to flush its exit message
		msg := stderr.String()
		o.Err = err.Error() + " | " + strings.TrimSpace(msg)
		o.Phase = "build"
		if strings.Contains(msg, "init_fs:") {
			o.Phase = "init_fs"
		}
		return o, nil
	}
	defer envc.Destroy()
	pr, err := newPipeReader()
	if err != nil {
		return o, err
	}
	null, err := os.Open("/dev/null")
	if err != nil {
		pr.finish()
		return o, err
	}
	defer null.Close()
	var mi string
	dyn := 0
	ctx, cancel := context.WithTimeout(context.Background(), e.timeout)
	res := envc.Execve(ctx, container.ExecveParam{
		Args:     e.probeArgs(cd, c, 1),
		Env:      []string{"PATH=/"},
		Files:    []uintptr{null.Fd(), pr.w.Fd(), pr.w.Fd()},
		ExecFile: e.probe.Fd(),
		Seccomp:  allowAll,
		SyncFunc: func(pid int) error {
			dyn = e.dynMount(c)
			bb, rerr := os.ReadFile(fmt.Sprintf("/proc/%d/mountinfo", pid))
			if rerr != nil {
				return rerr
			}
			mi = string(bb)
			return nil
		},
	})
	cancel()
	raw := pr.finish()
	o.Mi = e.parseMountinfo(cd, c, mi)
	o.DynMounted = dyn
	o.Exit = res.ExitStatus
	if res.Status != runner.StatusNormal {
		return o, fmt.Errorf("case %d: probe in container ended with %v (%s) exit=%d out=%q stderr=%q", c.ID, res.Status, res.Error, res.ExitStatus, truncate(raw), stderr.String())
	}
	o.Started = true
	if err := e.fill(&o, cd, c, raw); err != nil {
		return o, fmt.Errorf("case %d: %v", c.ID, err)
	}
	// a second program in the same container (after Reset, as a pooled container is reused):
	// what does it find at the masked paths the first one tried to modify?
	if len(c.MaskChk) > 0 {
		envc.Reset() // its own failures belong to another property
		pr2, err := newPipeReader()
		if err != nil {
			return o, err
		}
		args2 := []string{"/vprobe-mounts", "1"}
		for _, m := range c.MaskChk {
			args2 = append(args2, "M:"+abs(m))
		}
		ctx2, cancel2 := context.WithTimeout(context.Background(), e.timeout)
		res2 := envc.Execve(ctx2, container.ExecveParam{
			Args:     args2,
			Env:      []string{"PATH=/"},
			Files:    []uintptr{null.Fd(), pr2.w.Fd(), pr2.w.Fd()},
			ExecFile: e.probe.Fd(),
			Seccomp:  allowAll,
		})
		cancel2()
		raw2 := pr2.finish()
		if res2.Status != runner.StatusNormal {
			return o, fmt.Errorf("case %d: second probe in container ended with %v (%s) out=%q", c.ID, res2.Status, res2.Error, truncate(raw2))
		}
		var o2 obsRec
		if err := e.fill(&o2, cd, c, raw2); err != nil {
			return o, fmt.Errorf("case %d: second probe: %v", c.ID, err)
		}
		o.Masks2 = o2.Masks
		o.Second = true
	}
	return o, nil
}

// mounts run <cases.ndjson> <obs.ndjson> <probe> <workdir> <parallel>
// Must run in a private mount namespace (unshare -m --propagation private): it mounts one tmpfs
// with nosuid,nodev,noexec for the "locked" bind sources; the namespace disappears with the process.
func runMain(args []string) error {
	if len(args) != 5 {
		return fmt.Errorf("usage: run <cases> <obs> <probe> <workdir> <parallel>")
	}
	if pf := os.Getenv("VERIF_MOUNTS_PROF"); pf != "" { // development aid
		if f, err := os.Create(pf); err == nil {
			pprof.StartCPUProfile(f)
			defer pprof.StopCPUProfile()
		}
	}
	cases, err := hx.ReadLines[caseRec](args[0])
	if err != nil {
		return err
	}
	w, err := hx.NewLineWriter(args[1])
	if err != nil {
		return err
	}
	defer w.Close()
	pf, err := os.Open(args[2])
	if err != nil {
		return err
	}
	defer pf.Close()
	par, _ := strconv.Atoi(args[4])
	if par < 1 {
		par = 1
	}
	e := &env{work: args[3], probe: pf, timeout: 180 * time.Second}
	if err := os.MkdirAll(e.work, 0755); err != nil {
		return err
	}
	e.locked = filepath.Join(e.work, "locked")
	if err := os.MkdirAll(e.locked, 0755); err != nil {
		return err
	}
	// refuse to mount into a shared namespace: the mount must vanish with this process
	self, _ := os.Readlink("/proc/self/ns/mnt")
	initns, _ := os.Readlink("/proc/1/ns/mnt")
	if self == initns && os.Getenv("VERIF_MOUNTS_ALLOW_INITNS") == "" {
		return fmt.Errorf("refusing to mount in the initial mount namespace; run under unshare -m")
	}
	if err := syscall.Mount("vlocked", e.locked, "tmpfs", syscall.MS_NOSUID|syscall.MS_NODEV|syscall.MS_NOEXEC, "mode=0777"); err != nil {
		return fmt.Errorf("mount locked tmpfs: %v", err)
	}
	defer syscall.Unmount(e.locked, syscall.MNT_DETACH)
	e.shared = filepath.Join(e.work, "shared")
	if err := os.MkdirAll(e.shared, 0755); err != nil {
		return err
	}
	if err := syscall.Mount("vshared", e.shared, "tmpfs", 0, "mode=0777"); err != nil {
		return fmt.Errorf("mount shared tmpfs: %v", err)
	}
	defer syscall.Unmount(e.shared, syscall.MNT_DETACH)
	if err := syscall.Mount("", e.shared, "", syscall.MS_SHARED, ""); err != nil {
		return fmt.Errorf("make shared: %v", err)
	}
	e.shareFl = statfsFlags(e.shared)
	if b, err := os.ReadFile("/proc/self/mountinfo"); err == nil {
		for _, line := range strings.Split(string(b), "\n") {
			f := strings.Fields(line)
			if len(f) > 6 && f[4] == e.shared {
				for _, tag := range f[6:] {
					if tag == "-" {
						break
					}
					if strings.HasPrefix(tag, "shared:") {
						e.isShared = true
					}
				}
			}
		}
	}
	e.srcFl = statfsFlags(e.work)
	e.lockFl = statfsFlags(e.locked)

	type job struct {
		i int
		c caseRec
	}
	jobs := make(chan job)
	results := make([]*obsRec, len(cases))
	var firstErr error
	var mu sync.Mutex
	var solo sync.RWMutex
	var wg sync.WaitGroup
	for k := 0; k < par; k++ {
		wg.Add(1)
		go func() {
			defer wg.Done()
			for j := range jobs {
				var o obsRec
				var err error
				// A launch that does not start is tried again: under load the container's own 3 s
				// ping deadline and transient clone/exec errors hit.  From the third attempt on the
				// launch runs alone (no other sandbox of this driver is being set up meanwhile).  A
				// failure the code produces deterministically for this table stays and is reported
				// with its last error.
				for attempt := 0; attempt < 6; attempt++ {
					if attempt >= 2 {
						solo.Lock()
						time.Sleep(time.Duration(attempt) * 300 * time.Millisecond)
					} else {
						solo.RLock()
					}
					if j.c.Impl == "fork" {
						o, err = e.runFork(j.c)
					} else {
						o, err = e.runCont(j.c)
					}
					if attempt >= 2 {
						solo.Unlock()
					} else {
						solo.RUnlock()
					}
					if err == nil && o.Started {
						break
					}
					o.Attempts = attempt + 1
					if err == nil && o.Phase != "build" && attempt >= 2 {
						break // the sandbox's own mount block failed three times: deterministic
					}
				}
				mu.Lock()
				if err != nil && firstErr == nil {
					firstErr = err
				}
				mu.Unlock()
				if err == nil {
					results[j.i] = &o
				}
			}
		}()
	}
	for i, c := range cases {
		jobs <- job{i, c}
	}
	close(jobs)
	wg.Wait()
	for _, o := range results {
		if o != nil {
			w.Write(o)
		}
	}
	return firstErr
}
