package main

// Driver of family `limits` (C08).  Three kinds of real executions, no oracle:
//   rl       the probe reports getrlimit of all 16 resources under a TLC-generated limit record
//   verdict  CPU burner / file grower / page toucher under rlimits and runner.Limit
//   collect  pipe.NewBuffer(N) fed by a real writer process
// Every line written here is judged by TLC against spec/Limits.tla.

import (
	"bufio"
	"bytes"
	"fmt"
	"os"
	"os/exec"
	"strconv"
	"strings"
	"sync"
	"syscall"
	"time"

	"verifharness/hx"
	"verifharness/internal/limrun"

	"github.com/criyle/go-sandbox/container"
	"github.com/criyle/go-sandbox/pkg/pipe"
	"github.com/criyle/go-sandbox/pkg/rlimit"
	"github.com/criyle/go-sandbox/runner"
)

func main() {
	container.Init() // no-op unless we are the re-executed container init
	hx.Register("run", runMain)
	hx.Main()
}

// ---- 64-bit values travel as four 16-bit limbs, most significant first (TLC ints are 32-bit)
type limbs [4]int

func toLimbs(v uint64) limbs {
	return limbs{int(v >> 48 & 0xffff), int(v >> 32 & 0xffff), int(v >> 16 & 0xffff), int(v & 0xffff)}
}
func (l limbs) u64() uint64 {
	return uint64(l[0])<<48 | uint64(l[1])<<32 | uint64(l[2])<<16 | uint64(l[3])
}

type pair struct {
	Cur limbs `json:"cur"`
	Max limbs `json:"max"`
}

// ---------------------------------------------------------------- rlimit records
type rlRec struct {
	CPU     limbs `json:"cpu"`
	CPUHard limbs `json:"cpuHard"`
	Data    limbs `json:"data"`
	FSize   limbs `json:"fsize"`
	Stack   limbs `json:"stack"`
	AS      limbs `json:"as"`
	NoFile  limbs `json:"nofile"`
	NoCore  bool  `json:"nocore"`
}

type rlCase struct {
	Runner string `json:"runner"`
	Rec    rlRec  `json:"rec"`
	Dev    int    `json:"dev"`
	Name   string `json:"name"`
}

type rlObs struct {
	rlCase
	Inh       []pair `json:"inh"`
	Got       []pair `json:"got"`
	Ign       []int  `json:"ign"`       // signals the program found ignored on entry
	CallerIgn []int  `json:"callerign"` // signals the driver itself ignores (inherited legitimately)
	Status    int    `json:"status"`
	Exit      int    `json:"exit"`
	ErrLen    int    `json:"errlen"`
	Err       string `json:"err"`
	Setup     string `json:"setup"`
}

var huge = runner.Limit{TimeLimit: 1 << 40, MemoryLimit: 1 << 40}

func pairsOf(a [16][2]uint64) []pair {
	p := make([]pair, 16)
	for i := range a {
		p[i] = pair{toLimbs(a[i][0]), toLimbs(a[i][1])}
	}
	return p
}

// the limits of the process the program inherits from: the driver itself, or the container init
func inherited(run string) ([16][2]uint64, error) {
	if run == "ptrace" || run == "unshare" {
		return limrun.ParentLimits("self")
	}
	pids, err := limrun.ContainerInits()
	if err != nil {
		return [16][2]uint64{}, err
	}
	if len(pids) == 0 {
		return [16][2]uint64{}, fmt.Errorf("no container init found")
	}
	// other workers build and drop containers concurrently: an init may vanish between the scan
	// and the read; all the ones that can be read must agree
	var first [16][2]uint64
	n := 0
	for _, p := range pids {
		o, err := limrun.ParentLimits(strconv.Itoa(p))
		if err != nil {
			continue
		}
		if n > 0 && o != first {
			return first, fmt.Errorf("container inits with different limits")
		}
		first = o
		n++
	}
	if n == 0 {
		return first, fmt.Errorf("no container init could be read")
	}
	return first, nil
}

func runRl(e *limrun.Env, c rlCase) rlObs {
	o := rlObs{rlCase: c, Inh: []pair{}, Got: []pair{}, Ign: []int{}, CallerIgn: []int{}}
	if ci, err := limrun.CallerIgnored(); err != nil {
		o.Setup = "caller dispositions: " + err.Error()
		return o
	} else {
		o.CallerIgn = ci
	}
	rec := rlimit.RLimits{
		CPU: c.Rec.CPU.u64(), CPUHard: c.Rec.CPUHard.u64(), Data: c.Rec.Data.u64(),
		FileSize: c.Rec.FSize.u64(), Stack: c.Rec.Stack.u64(), AddressSpace: c.Rec.AS.u64(),
		OpenFile: c.Rec.NoFile.u64(), DisableCore: c.Rec.NoCore,
	}
	if c.Runner == "cbefore" || c.Runner == "cafter" {
		if _, err := e.Container(); err != nil {
			o.Setup = "container: " + err.Error()
			return o
		}
	}
	inh, err := inherited(c.Runner)
	if err != nil {
		o.Setup = "inherited: " + err.Error()
		return o
	}
	o.Inh = pairsOf(inh)
	out := e.Run(limrun.Spec{Runner: c.Runner, Args: []string{"rlimits"}, Child: "none",
		RLimits: rec.PrepareRLimit(), Limit: huge})
	o.Status, o.Exit = int(out.Result.Status), out.Result.ExitStatus
	o.Err, o.ErrLen, o.Setup = out.Result.Error, len(out.Result.Error), out.Setup
	var got [16][2]uint64
	n := 0
	for _, l := range out.Report {
		if l.T == "ign" {
			o.Ign = append(o.Ign, int(l.V))
		}
		if l.T == "rl" && len(l.Rest) == 3 {
			r, e1 := strconv.Atoi(l.Rest[0])
			cur, e2 := strconv.ParseUint(l.Rest[1], 10, 64)
			max, e3 := strconv.ParseUint(l.Rest[2], 10, 64)
			if e1 == nil && e2 == nil && e3 == nil && r >= 0 && r < 16 {
				got[r] = [2]uint64{cur, max}
				n++
			}
		}
	}
	if n == 16 {
		o.Got = pairsOf(got)
	}
	return o
}

// ---------------------------------------------------------------- verdict runs
type vCase struct {
	Runner  string `json:"runner"`
	Name    string `json:"name"`
	Prog    string `json:"prog"` // burn | grow | touch
	Arg     int    `json:"arg"`  // burn: ms of user CPU (0 = until killed); grow: bytes; touch: KiB
	CPU     int    `json:"cpu"`  // RLIMIT_CPU soft (s), 0 = unset
	CPUHard int    `json:"cpuHard"`
	FSize   int    `json:"fsize"` // RLIMIT_FSIZE bytes, 0 = unset
	TLus    int    `json:"tl_us"` // runner.Limit.TimeLimit in us
	MLkib   int    `json:"ml_kib"`
	Calib   bool   `json:"calib"` // run once to measure, then again with MemoryLimit = the measurement
	Scen    string `json:"scen"`  // what the scenario is meant to exercise (judged by TLC)
	End     string `json:"end"`   // how the program ends afterwards: exit:n | fault:segv | hang (cancelled by the caller)
}

type vObs struct {
	vCase
	Status    int           `json:"status"`
	Exit      int           `json:"exit"`
	ErrLen    int           `json:"errlen"`
	Err       string        `json:"err"`
	TimeUs    int           `json:"time_us"`
	MemKib    int           `json:"mem_kib"`
	Report    []limrun.Line `json:"report"`
	Setup     string        `json:"setup"`
	WallMs    int           `json:"wall_ms"`
	Limited   bool          `json:"limited"`   // the runner takes a runner.Limit (ptrace, unshare)
	Cancel    bool          `json:"cancelled"` // the driver cancelled the run when the program reported "ready"
	CallerIgn []int         `json:"callerign"` // signals the driver itself ignores
}

func runV(e *limrun.Env, c vCase) []vObs {
	mk := func(c vCase) vObs {
		o := vObs{vCase: c, Report: []limrun.Line{}, Limited: c.Runner == "ptrace" || c.Runner == "unshare", CallerIgn: []int{}}
		if ci, err := limrun.CallerIgnored(); err != nil {
			o.Setup = "caller dispositions: " + err.Error()
			return o
		} else {
			o.CallerIgn = ci
		}
		rec := rlimit.RLimits{CPU: uint64(c.CPU), CPUHard: uint64(c.CPUHard), FileSize: uint64(c.FSize)}
		var args []string
		switch c.Prog {
		case "burn":
			args = []string{"burn", strconv.Itoa(c.Arg), c.End}
		case "grow":
			args = []string{"grow", strconv.Itoa(c.Arg), "4096"}
		case "touch":
			args = []string{"touch", strconv.Itoa(c.Arg), c.End}
		default:
			o.Setup = "bad prog"
			return o
		}
		t0 := time.Now()
		out := e.Run(limrun.Spec{Runner: c.Runner, Args: args, Child: "none", RLimits: rec.PrepareRLimit(), CancelOnReady: c.End == "hang",
			Limit: runner.Limit{TimeLimit: time.Duration(c.TLus) * time.Microsecond, MemoryLimit: runner.Size(c.MLkib) << 10}})
		o.WallMs = int(time.Since(t0) / time.Millisecond)
		o.Status, o.Exit = int(out.Result.Status), out.Result.ExitStatus
		o.Err, o.ErrLen, o.Setup = out.Result.Error, len(out.Result.Error), out.Setup
		o.TimeUs = int(out.Result.Time / time.Microsecond)
		o.MemKib = int(out.Result.Memory >> 10)
		o.Cancel = out.Cancelled
		if out.Report != nil {
			o.Report = out.Report
		}
		return o
	}
	first := mk(c)
	if !c.Calib || first.Setup != "" {
		return []vObs{first}
	}
	// second run: the bound is exactly what was measured a moment ago (exercises `>` at equality
	// whenever the measurement repeats; judged by the same rule either way)
	c2 := c
	c2.MLkib = first.MemKib
	return []vObs{first, mk(c2)}
}

// ---------------------------------------------------------------- collector
type cCase struct {
	N       int `json:"n"`
	Volume  int `json:"volume"`
	Chunk   int `json:"chunk"`
	DelayUs int `json:"delay_us"`
}

type cObs struct {
	cCase
	Written  int    `json:"written"`  // bytes the writer got rid of (its own count)
	WErrno   int    `json:"werrno"`   // errno of a failed write, 0 = none
	WSig     int    `json:"wsig"`     // signal that killed the writer, 0 = none
	WExit    int    `json:"wexit"`    // its exit code (-1 = did not exit)
	Blocked  bool   `json:"blocked"`  // still alive at the hard cap
	Retained int    `json:"retained"` // Buffer.Len() after Done
	Done     bool   `json:"done"`     // Done was closed within the cap
	PrefixOK bool   `json:"prefix"`   // retained bytes are the first bytes written
	CapMs    int    `json:"cap_ms"`
	Setup    string `json:"setup"`
}

func runC(probe string, c cCase, capMs int) cObs {
	o := cObs{cCase: c, WExit: -1, CapMs: capMs}
	b, err := pipe.NewBuffer(int64(c.N))
	if err != nil {
		o.Setup = "NewBuffer: " + err.Error()
		return o
	}
	repR, repW, err := os.Pipe()
	if err != nil {
		o.Setup = err.Error()
		return o
	}
	defer repR.Close()
	null, _ := os.Open("/dev/null")
	defer null.Close()
	cmd := exec.Command(probe, "write", strconv.Itoa(c.Volume), strconv.Itoa(c.Chunk), strconv.Itoa(c.DelayUs))
	cmd.Stdin = null
	cmd.Stdout = b.W
	cmd.ExtraFiles = []*os.File{repW} // fd 3
	if err := cmd.Start(); err != nil {
		o.Setup = "start writer: " + err.Error()
		b.W.Close()
		repW.Close()
		return o
	}
	b.W.Close() // the collector sees EOF when the writer is gone
	repW.Close()
	var rep bytes.Buffer
	repDone := make(chan struct{})
	go func() {
		sc := bufio.NewScanner(repR)
		for sc.Scan() {
			rep.WriteString(sc.Text())
			rep.WriteByte('\n')
		}
		close(repDone)
	}()
	waitCh := make(chan error, 1)
	go func() { waitCh <- cmd.Wait() }()
	cap := time.After(time.Duration(capMs) * time.Millisecond)
	select {
	case <-waitCh:
	case <-cap:
		o.Blocked = true
		cmd.Process.Kill()
		<-waitCh
	}
	if ws, ok := cmd.ProcessState.Sys().(syscall.WaitStatus); ok {
		if ws.Signaled() && !o.Blocked {
			o.WSig = int(ws.Signal())
		}
		if ws.Exited() {
			o.WExit = ws.ExitStatus()
		}
	}
	<-repDone
	for _, ln := range strings.Split(rep.String(), "\n") {
		f := strings.Fields(ln)
		if len(f) != 2 {
			continue
		}
		v, _ := strconv.Atoi(f[1])
		switch f[0] {
		case "written":
			o.Written = v
		case "werrno":
			o.WErrno = v
		}
	}
	select {
	case <-b.Done:
		o.Done = true
		data := b.Buffer.Bytes()
		o.Retained = len(data)
		o.PrefixOK = true
		for i, x := range data {
			if x != byte((i*7+3)&0xff) {
				o.PrefixOK = false
				break
			}
		}
	case <-time.After(time.Duration(capMs) * time.Millisecond):
		o.Done = false
		o.Retained = -1
	}
	return o
}

// limits run <rl.ndjson> <v.ndjson> <c.ndjson> <rlobs> <vobs> <cobs> <probe> <scratch> <parallel> <cap_ms> <essential> <budget_s>
// All verdict and collector cases and the first <essential> limit records are always executed,
// the remaining limit records until the budget is used up.
func runMain(args []string) error {
	if len(args) != 12 {
		return fmt.Errorf("want 12 arguments")
	}
	essential, _ := strconv.Atoi(args[10])
	budget, _ := strconv.Atoi(args[11])
	deadline := time.Now().Add(time.Duration(budget) * time.Second)
	rl, err := hx.ReadLines[rlCase](args[0])
	if err != nil {
		return err
	}
	vs, err := hx.ReadLines[vCase](args[1])
	if err != nil {
		return err
	}
	cs, err := hx.ReadLines[cCase](args[2])
	if err != nil {
		return err
	}
	probe, scratch := args[6], args[7]
	par, _ := strconv.Atoi(args[8])
	if par < 1 {
		par = 1
	}
	capMs, _ := strconv.Atoi(args[9])
	rlo := make([]rlObs, len(rl))
	rlDone := make([]bool, len(rl))
	vo := make([][]vObs, len(vs))
	co := make([]cObs, len(cs))

	type job struct{ kind, i int }
	ch := make(chan job)
	errs := make(chan error, par)
	var wg sync.WaitGroup
	for k := 0; k < par; k++ {
		wg.Add(1)
		go func() {
			defer wg.Done()
			e, err := limrun.NewEnv(probe, scratch)
			if err != nil {
				errs <- err
				for range ch {
				}
				return
			}
			defer e.Close()
			for j := range ch {
				switch j.kind {
				case 0:
					vo[j.i] = runV(e, vs[j.i])
				case 1:
					rlo[j.i] = runRl(e, rl[j.i])
					rlDone[j.i] = true
				case 2:
					co[j.i] = runC(probe, cs[j.i], capMs)
				}
			}
		}()
	}
	// the slow CPU-bound runs first so that they overlap with everything else
	for i := range vs {
		ch <- job{0, i}
	}
	for i := range cs {
		ch <- job{2, i}
	}
	for i := range rl {
		if i >= essential && time.Now().After(deadline) {
			break
		}
		ch <- job{1, i}
	}
	close(ch)
	wg.Wait()
	select {
	case err := <-errs:
		return err
	default:
	}
	w1, err := hx.NewLineWriter(args[3])
	if err != nil {
		return err
	}
	for i, o := range rlo {
		if rlDone[i] {
			w1.Write(o)
		}
	}
	w1.Close()
	w2, err := hx.NewLineWriter(args[4])
	if err != nil {
		return err
	}
	for _, os := range vo {
		for _, o := range os {
			w2.Write(o)
		}
	}
	w2.Close()
	w3, err := hx.NewLineWriter(args[5])
	if err != nil {
		return err
	}
	for _, o := range co {
		w3.Write(o)
	}
	w3.Close()
	return nil
}
