package main

// C02 driver (family pathwalk).
//
//	pathwalk run <top> <forests.ndjson> <cases.ndjson> <probe> <obs.ndjson>
//
// Materialises the TLC-generated forests under <top>, runs the C probe once directly (kernel truth) and
// once under the REAL ptrace runner
// (runner/ptrace.Runner, seccomp filter tracing the path syscalls) with a recording Handler, and
// writes one observation line per case: the case itself, the consultations (class + path) the
// handler received while the scripted call was trapped, and the kernel truth reported by the probe.
// No oracle here: the lines are judged by TLC (spec/PathWalk_Judge.tla).

import (
	"bufio"
	"bytes"
	"context"
	"encoding/hex"
	"fmt"
	"os"
	"os/exec"
	"path/filepath"
	"strconv"
	"strings"
	"time"

	"verifharness/hx"

	"github.com/criyle/go-sandbox/pkg/seccomp/libseccomp"
	"github.com/criyle/go-sandbox/ptracer"
	"github.com/criyle/go-sandbox/runner"
	"github.com/criyle/go-sandbox/runner/ptrace"
)

func main() {
	hx.Register("run", runMain)
	hx.Main()
}

// ---- case / forest records as written by PathWalk_Gen ----

type node struct {
	P   []string `json:"p"`
	T   string   `json:"t"`
	Abs bool     `json:"abs"`
	Tgt []string `json:"tgt"`
}

type forest struct {
	ID    int    `json:"id"`
	Nodes []node `json:"nodes"`
}

type pstr struct {
	Abs   bool     `json:"abs"`
	Comps []string `json:"comps"`
	Trail bool     `json:"trail"`
	Pre   string   `json:"pre"`  // procfs alias in front of the name: "" pcwd ptcwd proot pfd
	Pdir  []string `json:"pdir"` // pfd: the directory the descriptor is opened on
	Pad   int      `json:"pad"`  // extra slashes at the first separator
	Mem   memspec  `json:"mem"`  // where the string lies in the probe's memory
}

type memspec struct {
	B    string `json:"b"`
	Gap  bool   `json:"gap"`
	Prot string `json:"prot"` // protection of the page holding the NUL: rw, w, none
}

func (m memspec) token() string {
	b, g, p := m.B, "0", m.Prot
	if b == "" {
		b = "static"
	}
	if m.Gap {
		g = "1"
	}
	if p == "" {
		p = "rw"
	}
	return b + ":" + g + ":" + p
}

type dkind struct {
	Lo   string   `json:"lo"`
	Hi   string   `json:"hi"`
	Dirp []string `json:"dirp"`
}

type tcase struct {
	Fam  string   `json:"fam"`
	F    int      `json:"f"`
	Cwd  []string `json:"cwd"`
	Sc   string   `json:"sc"`
	Args []string `json:"args"`
	Acc  int      `json:"acc"`
	Fl   []string `json:"fl"`
	D1   dkind    `json:"d1"`
	P1   pstr     `json:"p1"`
	D2   dkind    `json:"d2"`
	P2   pstr     `json:"p2"`
	Swap swapspec `json:"swap"` // two nodes exchanged while this call is made (P empty: none)
}

type swapspec struct {
	P []string `json:"p"`
	Q []string `json:"q"`
}

// ---- observation ----

type seen struct {
	C   string   `json:"c"`   // read | write | stat | syscall
	In  bool     `json:"in"`  // the presented path lies inside the forest
	P   []string `json:"p"`   // its components below the forest top (verbatim split, nothing cleaned)
	Raw string   `json:"raw"` // the presented string
}

type tres struct {
	K  string   `json:"k"` // ok | create | err | out
	P  []string `json:"p"`
	E  string   `json:"e"`
	Ce string   `json:"ce"`
}

type truth struct {
	F tres `json:"f"`
	N tres `json:"n"`
}

type obs struct {
	ID    int     `json:"id"`
	Case  tcase   `json:"case"`
	S1    string  `json:"s1"` // the strings actually used
	S2    string  `json:"s2"`
	Ret   string  `json:"ret"`
	Seen  []seen  `json:"seen"`
	Truth []truth `json:"truth"`
}

// ---- recording handler ----

type consult struct{ class, arg string }

type recorder struct {
	active bool
	cur    []consult
	done   [][]consult
}

func (r *recorder) rec(class, arg string) ptracer.TraceAction {
	if r.active {
		r.cur = append(r.cur, consult{class, arg})
		return ptracer.TraceBan // the scripted call must not execute: the forest stays as generated
	}
	return ptracer.TraceAllow
}

func (r *recorder) CheckRead(p string) ptracer.TraceAction  { return r.rec("read", p) }
func (r *recorder) CheckWrite(p string) ptracer.TraceAction { return r.rec("write", p) }
func (r *recorder) CheckStat(p string) ptracer.TraceAction  { return r.rec("stat", p) }
func (r *recorder) CheckSyscall(n string) ptracer.TraceAction {
	switch n {
	case "getppid":
		r.active = true
		r.cur = []consult{}
		return ptracer.TraceAllow
	case "getsid":
		if r.active {
			r.done = append(r.done, r.cur)
		}
		r.active = false
		return ptracer.TraceAllow
	}
	return r.rec("syscall", n)
}

var traced = []string{"open", "openat", "openat2", "readlink", "readlinkat", "unlink", "unlinkat",
	"mkdirat", "mknodat", "symlinkat", "fchmodat", "fchmodat2", "linkat", "renameat", "renameat2",
	"access", "faccessat", "faccessat2", "stat", "lstat", "newfstatat", "statx", "execve", "execveat",
	"chmod", "rename", "getppid", "getsid"}

// render gives the string handed to the probe and, for pfd, the directory the probe has to open
// (the probe then prefixes /proc/self/fd/<N>/ itself).
func render(top, cwd string, p pstr) (string, string) {
	pad := strings.Repeat("/", p.Pad)
	var s string
	if p.Abs || p.Pre != "" {
		// the extra slashes follow the prefix
		s = pad + strings.Join(p.Comps, "/")
	} else if len(p.Comps) >= 2 {
		s = p.Comps[0] + "/" + pad + strings.Join(p.Comps[1:], "/")
	} else {
		s = strings.Join(p.Comps, "/")
		if p.Trail {
			s += pad
		}
	}
	if p.Trail {
		s += "/"
	}
	switch p.Pre {
	case "pcwd":
		return "/proc/self/cwd/" + s, ""
	case "ptcwd":
		return "/proc/thread-self/cwd/" + s, ""
	case "proot":
		return "/proc/self/root" + cwd + "/" + s, ""
	case "pfd":
		return s, under(top, p.Pdir)
	}
	if p.Abs {
		return top + "/" + s, ""
	}
	return s, ""
}

func hexs(s string) string { return "x" + hex.EncodeToString([]byte(s)) }

func unhexs(s string) (string, error) {
	if !strings.HasPrefix(s, "x") {
		return "", fmt.Errorf("bad hex token %q", s)
	}
	b, err := hex.DecodeString(s[1:])
	return string(b), err
}

func under(top string, comps []string) string {
	if len(comps) == 0 {
		return top
	}
	return top + "/" + strings.Join(comps, "/")
}

// split a presented/true path into components below top; verbatim (an unclean string shows up as
// ".", ".." or "" components)
func below(top, raw string) (bool, []string) {
	if raw == top {
		return true, []string{}
	}
	if strings.HasPrefix(raw, top+"/") {
		return true, strings.Split(raw[len(top)+1:], "/")
	}
	return false, []string{}
}

func materialise(top string, f forest) error {
	ft := filepath.Join(top, "f"+strconv.Itoa(f.ID))
	if err := os.MkdirAll(ft, 0o755); err != nil {
		return err
	}
	// directories first (shortest first), then files, then links
	for pass := 0; pass < 3; pass++ {
		for l := 1; l <= 8; l++ {
			for _, n := range f.Nodes {
				if len(n.P) != l {
					continue
				}
				p := under(ft, n.P)
				var err error
				switch {
				case pass == 0 && n.T == "dir":
					err = os.Mkdir(p, 0o755)
				case pass == 1 && n.T == "file":
					err = os.WriteFile(p, []byte("x"), 0o755)
				case pass == 2 && n.T == "link":
					tg := strings.Join(n.Tgt, "/")
					if n.Abs {
						tg = under(ft, n.Tgt)
					}
					err = os.Symlink(tg, p)
				}
				if err != nil {
					return err
				}
			}
		}
	}
	return nil
}

func parseTruth(ft, tok string) (tres, error) {
	r := tres{P: []string{}}
	parts := strings.Split(tok, ":")
	switch parts[0] {
	case "ok", "create":
		s, err := unhexs(parts[1])
		if err != nil {
			return r, err
		}
		in, comps := below(ft, s)
		if !in {
			r.K = "out"
			r.E = s
			return r, nil
		}
		r.K, r.P = parts[0], comps
	case "err":
		r.K, r.E, r.Ce = "err", parts[1], parts[2]
	default:
		return r, fmt.Errorf("bad truth token %q", tok)
	}
	return r, nil
}

func runMain(args []string) error {
	if len(args) != 5 {
		return fmt.Errorf("want <top> <forests> <cases> <probe> <obs>")
	}
	top, err := filepath.Abs(args[0])
	if err != nil {
		return err
	}
	if top, err = filepath.EvalSymlinks(top); err != nil {
		return err
	}
	forests, err := hx.ReadLines[forest](args[1])
	if err != nil {
		return err
	}
	allCases, err := hx.ReadLines[tcase](args[2])
	if err != nil {
		return err
	}
	cases := allCases[:0]
	for _, c := range allCases {
		if c.Fam != "skip" { // an index of the generator's space that denotes no well-formed string
			cases = append(cases, c)
		}
	}
	probe := args[3]
	for _, f := range forests {
		if err := materialise(top, f); err != nil {
			return fmt.Errorf("forest %d: %w", f.ID, err)
		}
	}
	out, err := hx.NewLineWriter(args[4])
	if err != nil {
		return err
	}
	defer out.Close()

	b := libseccomp.Builder{Allow: []string{"read", "write"}, Trace: traced, Default: libseccomp.ActionAllow}
	filter, err := b.Build()
	if err != nil {
		return fmt.Errorf("seccomp filter: %w", err)
	}

	const chunk = 4000
	for lo := 0; lo < len(cases); lo += chunk {
		hi := min(lo+chunk, len(cases))
		var script bytes.Buffer
		type strs struct{ s1, s2 string }
		used := make([]strs, hi-lo)
		for i := lo; i < hi; i++ {
			c := cases[i]
			ft := filepath.Join(top, "f"+strconv.Itoa(c.F))
			s1, f1 := render(ft, under(ft, c.Cwd), c.P1)
			s2, f2 := render(ft, under(ft, c.Cwd), c.P2)
			used[i-lo] = strs{s1, s2}
			if f1 != "" {
				used[i-lo].s1 = "/proc/self/fd/<" + f1 + ">/" + s1
			}
			if f2 != "" {
				used[i-lo].s2 = "/proc/self/fd/<" + f2 + ">/" + s2
			}
			swp, swq := "", ""
			if len(c.Swap.P) > 0 {
				swp, swq = under(ft, c.Swap.P), under(ft, c.Swap.Q)
			}
			fl := "-"
			if len(c.Fl) > 0 {
				fl = strings.Join(c.Fl, ",")
			}
			fmt.Fprintf(&script, "%d %s %s %d %s %s %s %s %s %s %s %s %s %s %s %s %s %s %s %s\n", i, hexs(under(ft, c.Cwd)), c.Sc, c.Acc, fl,
				c.D1.Lo, c.D1.Hi, hexs(under(ft, c.D1.Dirp)), hexs(s1), hexs(f1),
				c.D2.Lo, c.D2.Hi, hexs(under(ft, c.D2.Dirp)), hexs(s2), hexs(f2), strings.Join(c.Args, ","),
				c.P1.Mem.token(), c.P2.Mem.token(), hexs(swp), hexs(swq))
		}
		sp := filepath.Join(top, fmt.Sprintf("script.%d", lo))
		op := filepath.Join(top, fmt.Sprintf("out.%d", lo))
		if err := os.WriteFile(sp, script.Bytes(), 0o644); err != nil {
			return err
		}
		// kernel truth: the same script run directly (not traced), before the traced run
		tin, err := os.Open(sp)
		if err != nil {
			return err
		}
		tcmd := exec.Command(probe, "truth")
		tcmd.Stdin = tin
		tcmd.Stderr = os.Stderr
		tcmd.Dir = top
		tout, err := tcmd.Output()
		tin.Close()
		if err != nil {
			return fmt.Errorf("truth run (cases %d..%d): %w", lo, hi-1, err)
		}
		tlines := strings.Split(strings.TrimSpace(string(tout)), "\n")
		if len(tlines) != hi-lo {
			return fmt.Errorf("truth run wrote %d lines, script had %d", len(tlines), hi-lo)
		}

		in, err := os.Open(sp)
		if err != nil {
			return err
		}
		of, err := os.Create(op)
		if err != nil {
			return err
		}
		rec := &recorder{}
		r := &ptrace.Runner{
			Args:    []string{probe, "trace"},
			Env:     []string{"PATH=/usr/bin:/bin"},
			WorkDir: top,
			Files:   []uintptr{in.Fd(), of.Fd(), os.Stderr.Fd()},
			Limit:   runner.Limit{TimeLimit: time.Hour, MemoryLimit: runner.Size(1) << 40},
			Seccomp: filter,
			Handler: rec,
		}
		ctx, cancel := context.WithTimeout(context.Background(), 20*time.Minute)
		res := r.Run(ctx)
		cancel()
		in.Close()
		of.Close()
		if res.Status != runner.StatusNormal {
			return fmt.Errorf("traced probe (cases %d..%d) ended with %v %q exit=%d after %d completed calls",
				lo, hi-1, res.Status, res.Error, res.ExitStatus, len(rec.done))
		}
		if len(rec.done) != hi-lo {
			return fmt.Errorf("handler saw %d scripted calls, script had %d", len(rec.done), hi-lo)
		}
		fh, err := os.Open(op)
		if err != nil {
			return err
		}
		sc := bufio.NewScanner(fh)
		sc.Buffer(make([]byte, 1<<20), 1<<20)
		n := 0
		for sc.Scan() {
			rk := strings.Fields(sc.Text())
			if len(rk) != 2 || n >= hi-lo {
				return fmt.Errorf("bad probe line %q", sc.Text())
			}
			tk := strings.Fields(tlines[n])
			if len(tk) != 5 {
				return fmt.Errorf("bad truth line %q", tlines[n])
			}
			i := lo + n
			if rk[0] != strconv.Itoa(i) || tk[0] != rk[0] {
				return fmt.Errorf("line %d carries ids %s (traced) %s (truth)", i, rk[0], tk[0])
			}
			c := cases[i]
			ft := filepath.Join(top, "f"+strconv.Itoa(c.F))
			o := obs{ID: i, Case: c, S1: used[n].s1, S2: used[n].s2, Ret: rk[1], Seen: []seen{}, Truth: []truth{}}
			for _, k := range rec.done[n] {
				s := seen{C: k.class, Raw: k.arg, P: []string{}}
				if k.class != "syscall" {
					s.In, s.P = below(ft, k.arg)
				}
				o.Seen = append(o.Seen, s)
			}
			for j := 1; j+1 < 5; j += 2 {
				if tk[j] == "-" {
					continue
				}
				f, err := parseTruth(ft, tk[j])
				if err != nil {
					return err
				}
				nf, err := parseTruth(ft, tk[j+1])
				if err != nil {
					return err
				}
				o.Truth = append(o.Truth, truth{F: f, N: nf})
			}
			out.Write(o)
			n++
		}
		fh.Close()
		if n != hi-lo {
			return fmt.Errorf("probe wrote %d lines, script had %d", n, hi-lo)
		}
	}
	return nil
}
