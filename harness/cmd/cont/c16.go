package main

// C16: if the controlling process dies, the sandbox dies with it.
// c16ctl is the controller: it runs a scenario on a real container (or ptrace run), announces a
// crash point and blocks there; c16 (the driver) SIGKILLs it there and observes what is left.

import (
	"bufio"
	"context"
	"encoding/json"
	"fmt"
	"os"
	"os/exec"
	"path/filepath"
	"runtime"
	"strconv"
	"strings"
	"sync"
	"syscall"
	"time"

	"verifharness/hx"

	"github.com/criyle/go-sandbox/container"
	"github.com/criyle/go-sandbox/pkg/mount"
	"github.com/criyle/go-sandbox/pkg/verifhook"
	"github.com/criyle/go-sandbox/runner"
	"github.com/criyle/go-sandbox/runner/ptrace"
	"github.com/criyle/go-sandbox/runner/unshare"
)

func init() {
	hx.Register("c16", c16Main)
	hx.Register("c16ctl", c16Ctl)
}

type c16Case struct {
	ID    int    `json:"id"`
	Kind  string `json:"kind"`  // container | ptrace
	Point string `json:"point"` // idle ping.send ping.recv open.recv exec.send exec.recv exec.cb exec.wait exec.result | run@<ms>
	SA    bool   `json:"sa"`
	Tree  string `json:"tree"`  // cprobe tree spec of the program
	After int    `json:"after"` // extra delay (ms) after the point is reached before the kill
	Drop  bool   `json:"drop"`  // the controller drops to an unprivileged uid after Build (parent-death signal not deliverable)
}

type c16Obs struct {
	ID         int      `json:"id"`
	Case       c16Case  `json:"case"`
	Ready      bool     `json:"ready"`
	InitPid    int      `json:"initpid"`
	ProgBefore int      `json:"prog_before"` // processes of the program seen before the kill
	InitGoneMs int64    `json:"init_gone_ms"`
	AllGoneMs  int64    `json:"all_gone_ms"`
	Alive      []string `json:"alive"` // "init" / "prog:<pid>" still alive at the deadline
	Host       []rawEv  `json:"host"`
	Init       []rawEv  `json:"init"`
	Setup      string   `json:"setup,omitempty"`
	InitSays   string   `json:"init_says,omitempty"` // what init wrote to stderr besides events (diagnostic)
}

func scanNonce(nonce string) []int {
	var pids []int
	ents, _ := os.ReadDir("/proc")
	for _, e := range ents {
		pid, err := strconv.Atoi(e.Name())
		if err != nil {
			continue
		}
		b, err := os.ReadFile("/proc/" + e.Name() + "/cmdline")
		if err != nil || !strings.Contains(string(b), nonce) {
			continue
		}
		// zombies have an empty cmdline, so anything found here is alive (or a not yet reaped corpse with cmdline gone)
		pids = append(pids, pid)
	}
	return pids
}

func pidAlive(pid int) bool {
	b, err := os.ReadFile(fmt.Sprintf("/proc/%d/stat", pid))
	if err != nil {
		return false
	}
	// state after the ") "
	s := string(b)
	i := strings.LastIndex(s, ") ")
	if i < 0 || i+2 >= len(s) {
		return false
	}
	return s[i+2] != 'Z' && s[i+2] != 'X'
}

// ---------------------------------------------------------------- driver
// c16 <probe> <cases> <out>
func c16Main(args []string) error {
	if len(args) != 3 {
		return fmt.Errorf("usage: c16 <cprobe> <cases> <out>")
	}
	cases, err := hx.ReadLines[c16Case](args[1])
	if err != nil {
		return err
	}
	out, err := hx.NewLineWriter(args[2])
	if err != nil {
		return err
	}
	defer out.Close()
	self, _ := os.Executable()
	for _, c := range cases {
		out.Write(c16One(self, args[0], c))
	}
	return nil
}

func c16One(self, probe string, c c16Case) c16Obs {
	o := c16Obs{ID: c.ID, Case: c, Alive: []string{}, Host: []rawEv{}, Init: []rawEv{}}
	dir, err := os.MkdirTemp("", "verif-c16-")
	if err != nil {
		o.Setup = err.Error()
		return o
	}
	defer os.RemoveAll(dir)
	nonce := fmt.Sprintf("vqc16x%dx%dz", os.Getpid(), c.ID)
	cj, _ := json.Marshal(c)
	cmd := exec.Command(self, "c16ctl", probe, string(cj), dir, nonce)
	cmd.Stderr = os.Stderr
	stdout, _ := cmd.StdoutPipe()
	if err := cmd.Start(); err != nil {
		o.Setup = err.Error()
		return o
	}
	ready := make(chan string, 1)
	go func() {
		sc := bufio.NewScanner(stdout)
		for sc.Scan() {
			if strings.HasPrefix(sc.Text(), "READY ") {
				ready <- sc.Text()[6:]
				return
			}
		}
		ready <- ""
	}()
	select {
	case r := <-ready:
		if r == "" {
			o.Setup = "controller ended without reaching the crash point"
		} else {
			o.Ready = true
			o.InitPid, _ = strconv.Atoi(strings.TrimSpace(r))
		}
	case <-time.After(30 * time.Second):
		o.Setup = "controller did not reach the crash point in 30 s"
	}
	if c.After > 0 {
		time.Sleep(time.Duration(c.After) * time.Millisecond)
	}
	progs := scanNonce(nonce)
	o.ProgBefore = len(progs) - 1 // minus the controller itself
	// the crash: SIGKILL of the controlling process (logged before the signal is sent)
	t0 := time.Now()
	cmd.Process.Kill()
	cmd.Wait()
	// observe for up to 5 s, with no further action
	deadline := t0.Add(5 * time.Second)
	o.InitGoneMs, o.AllGoneMs = -1, -1
	for {
		initAlive := o.InitPid > 0 && pidAlive(o.InitPid)
		if !initAlive && o.InitGoneMs < 0 {
			o.InitGoneMs = time.Since(t0).Milliseconds()
		}
		var alive []int
		for _, p := range scanNonce(nonce) {
			if pidAlive(p) {
				alive = append(alive, p)
			}
		}
		if !initAlive && len(alive) == 0 {
			o.AllGoneMs = time.Since(t0).Milliseconds()
			break
		}
		if time.Now().After(deadline) {
			if initAlive {
				o.Alive = append(o.Alive, "init")
			}
			for _, p := range alive {
				o.Alive = append(o.Alive, fmt.Sprintf("prog:%d", p))
			}
			break
		}
		time.Sleep(5 * time.Millisecond)
	}
	// clean up anything left so that a violation does not leak processes
	if o.InitPid > 0 {
		syscall.Kill(o.InitPid, syscall.SIGKILL)
	}
	for _, p := range scanNonce(nonce) {
		syscall.Kill(p, syscall.SIGKILL)
	}
	o.Host = readEvFile(filepath.Join(dir, "host.ev"), "")
	o.Init = dropBuildPhase(readEvFile(filepath.Join(dir, "init.err"), "@@VERIF "))
	if b, err := os.ReadFile(filepath.Join(dir, "init.err")); err == nil {
		for _, l := range strings.Split(string(b), "\n") {
			if l != "" && !strings.HasPrefix(l, "@@VERIF ") && len(o.InitSays) < 600 {
				o.InitSays += l + " | "
			}
		}
	}
	if !o.Ready && o.Setup == "" {
		o.Setup = "not ready"
	}
	return o
}

func readEvFile(path, pfx string) []rawEv {
	out := []rawEv{}
	f, err := os.Open(path)
	if err != nil {
		return out
	}
	defer f.Close()
	sc := bufio.NewScanner(f)
	sc.Buffer(make([]byte, 1<<20), 1<<20)
	for sc.Scan() {
		line := sc.Text()
		if pfx != "" {
			if !strings.HasPrefix(line, pfx) {
				continue
			}
			line = line[len(pfx):]
		}
		if !json.Valid([]byte(line)) { // a line cut short by SIGKILL
			continue
		}
		out = append(out, rawEv(append([]byte(nil), line...)))
	}
	return out
}

// dropBuildPhase removes init's events of Build (ping + conf), as session.readInit does
func dropBuildPhase(ev []rawEv) []rawEv {
	sawConf := false
	for i, raw := range ev {
		var e struct {
			Ev string `json:"ev"`
			K  string `json:"k"`
		}
		json.Unmarshal(raw, &e)
		if e.Ev == "handle" && e.K == "conf" {
			sawConf = true
		} else if sawConf && e.Ev == "sent" {
			return ev[i+1:]
		}
	}
	return []rawEv{}
}

// ---------------------------------------------------------------- controller
// c16ctl <probe> <case-json> <dir> <nonce>
func c16Ctl(args []string) error {
	if len(args) != 4 {
		return fmt.Errorf("usage")
	}
	var c c16Case
	if err := json.Unmarshal([]byte(args[1]), &c); err != nil {
		return err
	}
	probe, dir, nonce := args[0], args[2], args[3]
	if c.Kind == "ptrace" || c.Kind == "unshare" {
		return c16Runner(probe, c, nonce, dir)
	}
	hostEv, err := os.OpenFile(filepath.Join(dir, "host.ev"), os.O_CREATE|os.O_WRONLY|os.O_APPEND, 0644)
	if err != nil {
		return err
	}
	initErr, err := os.OpenFile(filepath.Join(dir, "init.err"), os.O_CREATE|os.O_WRONLY|os.O_APPEND, 0644)
	if err != nil {
		return err
	}
	verifhook.SetChildEnv([]string{"VERIF_EVENTS=stderr"})
	root, err := os.MkdirTemp(dir, "root")
	if err != nil {
		return err
	}
	before := map[int]bool{}
	for _, p := range childrenOf(os.Getpid()) {
		before[p] = true
	}
	b := container.Builder{
		Root: root,
		Mounts: mount.NewDefaultBuilder().WithBind(filepath.Dir(probe), "probe", true).
			WithTmpfs("w", "").WithTmpfs("tmp", "").FilterNotExist().Mounts,
		Stderr: initErr,
	}
	if c.Point == "conf.init" {
		// the controller dies while Build is still configuring the container: init is inside its handler,
		// running the init command (a program that ignores signals, has a descendant and does not end)
		b.InitCommand = []string{"/probe/cprobe", nonce + "p", "ignore", "tree:il()", "sleep:60000"}
		b.Mounts = mount.NewDefaultBuilder().WithBind(filepath.Dir(probe), "probe", true).WithBind("/dev/null", "dev/null", false).
			WithTmpfs("w", "").WithTmpfs("tmp", "").FilterNotExist().Mounts
		go b.Build()
		for k := 0; k < 1000; k++ {
			time.Sleep(10 * time.Millisecond)
			initPid := 0
			for _, p := range childrenOf(os.Getpid()) {
				if !before[p] {
					initPid = p
				}
			}
			if initPid != 0 && len(scanNonce(nonce+"p")) >= 2 {
				fmt.Printf("READY %d\n", initPid)
				os.Stdout.Sync()
				select {} // wait for the SIGKILL
			}
		}
		return fmt.Errorf("init command did not come up")
	}
	env, err := b.Build()
	for try := 0; err != nil && try < 3; try++ { // Build's ping has a 3 s deadline: retry on a loaded machine
		time.Sleep(time.Second)
		env, err = b.Build()
	}
	if err != nil {
		return err
	}
	initPid := 0
	for _, p := range childrenOf(os.Getpid()) {
		if !before[p] {
			initPid = p
		}
	}
	if c.Drop {
		// from now on the kernel may refuse to deliver PR_SET_PDEATHSIG to the (root-owned) init: only the
		// end of the control stream is left to tell it that its controller is gone
		os.Chmod(dir, 0777)
		if err := syscall.Setresgid(65534, 65534, 65534); err != nil {
			return err
		}
		if err := syscall.Setresuid(65534, 65534, 65534); err != nil {
			return err
		}
	}
	// record host events from now on (the model starts after conf)
	var mu sync.Mutex
	verifhook.SetSink(func(line []byte) {
		mu.Lock()
		hostEv.Write(append(append([]byte(nil), line...), '\n'))
		mu.Unlock()
	})
	reached := func() {
		verifhook.Event("harness", "crashpoint", "p", c.Point)
		fmt.Printf("READY %d\n", initPid)
		os.Stdout.Sync()
		select {} // wait for the SIGKILL
	}
	gate := func(name string, nth int) {
		n := 0
		verifhook.SetGate(name, func() {
			n++
			if n == nth {
				reached()
			}
		})
	}
	api := func(k string, sa bool, cb string) {
		verifhook.Event("api", "call", "k", k, "sa", sa, "cb", cb)
	}
	progArgs := []string{"/probe/cprobe", nonce + "p", "ignore", "tree:" + c.Tree, "sleep:60000"}
	param := container.ExecveParam{
		Args: progArgs, Env: []string{"PATH=/usr/bin:/bin"}, Files: nullFiles(), SyncAfterExec: c.SA,
	}
	switch c.Point {
	case "idle":
		reached()
	case "ping.send":
		gate("host.sendCmd", 1)
		api("ping", false, "none")
		env.Ping()
	case "ping.recv":
		gate("host.recvReply", 1)
		api("ping", false, "none")
		env.Ping()
	case "open.recv":
		gate("host.recvReply", 1)
		api("open", false, "none")
		env.Open([]container.OpenCmd{{Path: "/w/f", Flag: os.O_CREATE | os.O_WRONLY, Perm: 0644}})
	case "exec.send":
		gate("host.sendCmd", 1)
		api("exec", c.SA, "none")
		env.Execve(context.Background(), param)
	case "exec.recv":
		gate("host.recvReply", 1)
		api("exec", c.SA, "none")
		env.Execve(context.Background(), param)
	case "exec.cb":
		param.SyncFunc = func(pid int) error {
			verifhook.Event("harness", "cb", "res", "ok", "pid", pid)
			reached()
			return nil
		}
		api("exec", c.SA, "ok")
		env.Execve(context.Background(), param)
	case "exec.oksend":
		gate("host.sendCmd", 2)
		api("exec", c.SA, "none")
		env.Execve(context.Background(), param)
	case "exec.wait":
		gate("host.waitForDone", 1)
		api("exec", c.SA, "none")
		env.Execve(context.Background(), param)
	default:
		return fmt.Errorf("unknown point %s", c.Point)
	}
	return fmt.Errorf("scenario %s ended without reaching its crash point", c.Point)
}

// ptrace / namespace runner as the controller: the program (and, at the sync point, the launcher's
// pre-exec child) must die with it
func c16Runner(probe string, c c16Case, nonce, dir string) error {
	runtime.LockOSThread()
	announce := func() {
		fmt.Printf("READY 0\n")
		os.Stdout.Sync()
	}
	var syncFunc func(int) error
	if c.Point == "cb" {
		// crash point: inside the caller's sync callback (e.g. while attaching the pid to a cgroup);
		// the child is parked before exec
		syncFunc = func(pid int) error {
			announce()
			select {}
		}
	} else {
		go func() {
			// crash point: some instant while the program runs (announce once it is visible)
			for i := 0; i < 2000; i++ {
				if len(scanNonce(nonce+"p")) > 0 {
					break
				}
				time.Sleep(5 * time.Millisecond)
			}
			announce()
		}()
	}
	args := []string{"ignore", "tree:" + c.Tree, "sleep:60000"}
	var res runner.Result
	if c.Kind == "ptrace" {
		r := &ptrace.Runner{
			Args: append([]string{probe, nonce + "p"}, args...), Env: []string{"PATH=/usr/bin:/bin"}, Files: nullFiles(),
			Seccomp: allowAllFilter(), Handler: allowAll{}, SyncFunc: syncFunc,
			Limit: runner.Limit{TimeLimit: 200 * time.Second, MemoryLimit: runner.Size(2 << 30)},
		}
		res = r.Run(context.Background())
	} else {
		root, err := os.MkdirTemp(dir, "uroot")
		if err != nil {
			return err
		}
		m, err := mount.NewDefaultBuilder().WithBind(dirOf(probe), "probe", true).WithTmpfs("w", "").WithTmpfs("tmp", "").FilterNotExist().Build()
		if err != nil {
			return err
		}
		r := &unshare.Runner{
			Args: append([]string{"/probe/cprobe", nonce + "p"}, args...), Env: []string{"PATH=/usr/bin:/bin"}, Files: nullFiles(),
			WorkDir: "/w", Seccomp: allowAllFilter(), Root: root, Mounts: m, HostName: "verif", DomainName: "verif", SyncFunc: syncFunc,
			Limit: runner.Limit{TimeLimit: 200 * time.Second, MemoryLimit: runner.Size(2 << 30)},
		}
		res = r.Run(context.Background())
	}
	return fmt.Errorf("run ended: %v %q", res.Status, res.Error)
}
