package main

// C12: no residue.  (a) process trees under the three runners; (b) resource counters of the host
// process and of the container init over histories of operations.

import (
	"context"
	"fmt"
	"os"
	"path/filepath"
	"runtime"
	"strconv"
	"strings"
	"sync"
	"syscall"
	"time"

	"verifharness/hx"

	"github.com/criyle/go-sandbox/container"
	"github.com/criyle/go-sandbox/pkg/forkexec"
	"github.com/criyle/go-sandbox/pkg/mount"
	"github.com/criyle/go-sandbox/pkg/verifhook"
	"github.com/criyle/go-sandbox/runner"
	"github.com/criyle/go-sandbox/runner/ptrace"
	"github.com/criyle/go-sandbox/runner/unshare"
)

func init() {
	hx.Register("c12tree", c12TreeMain)
	hx.Register("c12ctr", c12CtrMain)
}

type c12Tree struct {
	ID        int    `json:"id"`
	Runner    string `json:"runner"`
	Tree      string `json:"tree"` // cprobe tree spec
	Nodes     int    `json:"nodes"`
	End       string `json:"end"` // exit | cancel | syncfail
	RootFirst bool   `json:"rootfirst"`
}

type c12TreeObs struct {
	c12Tree
	R        string `json:"r"`
	Status   int    `json:"status"`
	Err      string `json:"err"`
	Seen     int    `json:"seen"` // processes of the program seen while it ran
	Alive    int    `json:"alive"`
	Zombies  int    `json:"zombies"`
	InitKids int    `json:"initkids"`
	Setup    string `json:"setup,omitempty"`
}

func zombieKids(pid int) int {
	n := 0
	for _, c := range childrenOf(pid) {
		b, err := os.ReadFile(fmt.Sprintf("/proc/%d/stat", c))
		if err != nil {
			continue
		}
		s := string(b)
		if i := strings.LastIndex(s, ") "); i >= 0 && i+2 < len(s) && s[i+2] == 'Z' {
			n++
			if os.Getenv("VERIF_DEBUG") != "" {
				fmt.Fprintf(os.Stderr, "zombie child %d: %s\n", c, strings.TrimSpace(s))
			}
		}
	}
	return n
}

// c12tree <probe> <cases> <out>
func c12TreeMain(args []string) error {
	if len(args) != 3 {
		return fmt.Errorf("usage")
	}
	cases, err := hx.ReadLines[c12Tree](args[1])
	if err != nil {
		return err
	}
	out, err := hx.NewLineWriter(args[2])
	if err != nil {
		return err
	}
	defer out.Close()
	root, err := os.MkdirTemp("", "verif-c12-root-")
	if err != nil {
		return err
	}
	defer os.RemoveAll(root)
	var sess *session
	var sessSA *session
	defer func() {
		if sess != nil {
			sess.close()
		}
	}()
	_ = sessSA
	for _, c := range cases {
		o := c12TreeObs{c12Tree: c}
		nonce := fmt.Sprintf("vqc12x%dx%dz", os.Getpid(), c.ID)
		c.RootFirst = c.End == "exit"
		o.c12Tree = c
		// the caller's sync callback: accepts, or (end = syncfail) refuses the run once the tree is up
		// (sync before exec: the program has not started, there is nothing to wait for)
		syncFunc := func(pid int) error { return nil }
		if c.End == "syncfail" {
			syncFunc = func(pid int) error {
				if c.Runner == "container-sa" {
					dl := time.Now().Add(2 * time.Second)
					for time.Now().Before(dl) && len(scanNonce(nonce)) < c.Nodes {
						time.Sleep(2 * time.Millisecond)
					}
				}
				return fmt.Errorf("refused by the caller")
			}
		}
		// the program: build the tree, then end at once or linger until the run is cancelled
		prog := []string{"PROBE", nonce, "tree:" + c.Tree}
		if c.RootFirst {
			prog = append(prog, "sleep:40", "exit:0")
		} else {
			prog = append(prog, "sleep:60000")
		}
		ctx, cancel := context.WithCancel(context.Background())
		var run func() opResult
		switch c.Runner {
		case "ptrace":
			prog[0] = args[0]
			r := &ptrace.Runner{Args: prog, Env: []string{"PATH=/usr/bin:/bin"}, Files: nullFiles(), Seccomp: allowAllFilter(),
				Handler: allowAll{}, Limit: runner.Limit{TimeLimit: 200 * time.Second, MemoryLimit: runner.Size(2 << 30)}, SyncFunc: syncFunc}
			run = func() opResult { return classify(r.Run(ctx)) }
		case "unshare":
			prog[0] = "/probe/cprobe"
			m, err := mount.NewDefaultBuilder().WithBind(dirOf(args[0]), "probe", true).WithTmpfs("w", "").WithTmpfs("tmp", "").FilterNotExist().Build()
			if err != nil {
				o.Setup = err.Error()
				out.Write(o)
				cancel()
				continue
			}
			r := &unshare.Runner{Args: prog, Env: []string{"PATH=/usr/bin:/bin"}, Files: nullFiles(), WorkDir: "/w",
				Seccomp: allowAllFilter(), Root: root, Mounts: m, HostName: "verif", DomainName: "verif",
				Limit: runner.Limit{TimeLimit: 200 * time.Second, MemoryLimit: runner.Size(2 << 30)}, SyncFunc: syncFunc}
			run = func() opResult { return classify(r.Run(ctx)) }
		default:
			prog[0] = "/probe/cprobe"
			if sess == nil {
				s, err := newSession(args[0], sessOpt{})
				for try := 0; err != nil && try < 3; try++ {
					time.Sleep(time.Second)
					s, err = newSession(args[0], sessOpt{})
				}
				if err != nil {
					o.Setup = err.Error()
					out.Write(o)
					cancel()
					continue
				}
				sess = s
			}
			p := container.ExecveParam{Args: prog, Env: []string{"PATH=/usr/bin:/bin"}, Files: nullFiles(), SyncAfterExec: c.Runner == "container-sa", SyncFunc: syncFunc}
			s := sess
			run = func() opResult { return classify(s.env.Execve(ctx, p)) }
		}
		ch := make(chan opResult, 1)
		go func() { ch <- run() }()
		// watch the tree come up
		dl := time.Now().Add(3 * time.Second)
		for time.Now().Before(dl) {
			if n := len(scanNonce(nonce)); n > o.Seen {
				o.Seen = n
			}
			if o.Seen >= c.Nodes {
				break
			}
			select {
			case r := <-ch:
				ch <- r
				dl = time.Now()
			default:
				time.Sleep(2 * time.Millisecond)
			}
		}
		if c.End == "cancel" {
			cancel()
		}
		var r opResult
		select {
		case r = <-ch:
		case <-time.After(25 * time.Second):
			r = opResult{R: "hang"}
		}
		cancel()
		o.R, o.Status, o.Err = r.R, r.Status, trimErr(r.Err)
		// when the run has returned: nothing alive (SIGKILL is asynchronous: <= 2 s), no zombie child of the host
		o.Alive = waitGone(nonce, 2*time.Second)
		o.Zombies = zombieKids(os.Getpid())
		if sess != nil && (c.Runner == "container" || c.Runner == "container-sa") {
			if err := sess.env.Ping(); err != nil {
				o.Err += " ping:" + err.Error()
				o.InitKids = -1
			} else {
				o.InitKids = len(childrenOf(sess.initPid))
			}
			if o.InitKids < 0 {
				o.InitKids = 99
			}
		}
		for _, p := range scanNonce(nonce) {
			syscall.Kill(p, syscall.SIGKILL)
		}
		if r.R == "hang" && sess != nil {
			sess.close()
			sess = nil
		}
		out.Write(o)
	}
	return nil
}

// ---------------------------------------------------------------- counters

type c12Counters struct {
	Fds   int `json:"fds"`
	Kids  int `json:"kids"`
	Gor   int `json:"gor"`
	IFds  int `json:"ifds"`
	IKids int `json:"ikids"`
}

type c12CtrCase struct {
	ID   int     `json:"id"`
	What string  `json:"what"` // session | build | ptrace | unshare
	Ops  []opRec `json:"ops"`
	Reps int     `json:"reps"`
}

type c12CtrObs struct {
	ID    int         `json:"id"`
	What  string      `json:"what"`
	Reps  int         `json:"reps"`
	Base  c12Counters `json:"base"`
	End   c12Counters `json:"end"`
	Setup string      `json:"setup,omitempty"`
}

func countDir(p string) int {
	d, err := os.ReadDir(p)
	if err != nil {
		return -1
	}
	return len(d)
}

func sample(s *session) c12Counters {
	c := c12Counters{Fds: countDir("/proc/self/fd"), Kids: len(childrenOf(os.Getpid())), Gor: runtime.NumGoroutine()}
	if s != nil {
		c.IFds = countDir(fmt.Sprintf("/proc/%d/fd", s.initPid))
		c.IKids = len(childrenOf(s.initPid))
	}
	return c
}

func leq(a, b c12Counters) bool {
	return a.Fds <= b.Fds && a.Kids <= b.Kids && a.Gor <= b.Gor && a.IFds <= b.IFds && a.IKids <= b.IKids
}

// settle samples until the counters are back at (or below) base, for at most 3 s
func settle(s *session, base c12Counters) c12Counters {
	dl := time.Now().Add(3 * time.Second)
	for {
		c := sample(s)
		if leq(c, base) || time.Now().After(dl) {
			return c
		}
		time.Sleep(10 * time.Millisecond)
	}
}

// c12ctr <probe> <cases> <out>
func c12CtrMain(args []string) error {
	if len(args) != 3 {
		return fmt.Errorf("usage")
	}
	cases, err := hx.ReadLines[c12CtrCase](args[1])
	if err != nil {
		return err
	}
	out, err := hx.NewLineWriter(args[2])
	if err != nil {
		return err
	}
	defer out.Close()
	root, err := os.MkdirTemp("", "verif-c12-root-")
	if err != nil {
		return err
	}
	defer os.RemoveAll(root)
	nullFiles()
	for _, c := range cases {
		o := c12CtrObs{ID: c.ID, What: c.What, Reps: c.Reps}
		switch c.What {
		case "session":
			s, err := newSession(args[0], sessOpt{})
			if err != nil {
				o.Setup = err.Error()
				break
			}
			made := map[string]bool{}
			idx := 0
			// warm-up: one pass over the ops, then the baseline
			for _, op := range c.Ops {
				idx++
				s.do(idx, op, made)
			}
			s.env.Ping()
			time.Sleep(50 * time.Millisecond)
			o.Base = sample(s)
			for rep := 0; rep < c.Reps; rep++ {
				for _, op := range c.Ops {
					idx++
					s.do(idx, op, made)
				}
			}
			s.env.Ping()
			o.End = settle(s, o.Base)
			s.close()
		case "openloss":
			// the transport is lost while an Open reply (carrying a descriptor) is queued for the caller:
			// the reply has been received, then init is killed and the receive loop sees the end of the stream
			// before the API goroutine looks at its channels (gate in front of recvReply)
			one := func() error {
				s, err := newSession(args[0], sessOpt{})
				if err != nil {
					return err
				}
				var once sync.Once
				verifhook.SetGate("host.recvReply", func() {
					once.Do(func() {
						s.waitHostEvent(`"ev":"recvd","k":"batch"`, 5*time.Second)
						syscall.Kill(s.initPid, syscall.SIGKILL)
						s.waitHostEvent(`"ev":"recverr"`, 5*time.Second)
					})
				})
				res, err := s.env.Open([]container.OpenCmd{{Path: "/w/f", Flag: os.O_CREATE | os.O_WRONLY, Perm: 0644}})
				if err == nil {
					for _, x := range res {
						if x.File != nil {
							x.File.Close()
						}
					}
				}
				s.close()
				return nil
			}
			if err := one(); err != nil {
				o.Setup = err.Error()
				break
			}
			time.Sleep(50 * time.Millisecond)
			o.Base = sample(nil)
			for rep := 0; rep < c.Reps; rep++ {
				if err := one(); err != nil {
					o.Setup = err.Error()
					break
				}
			}
			o.End = settle(nil, o.Base)
		case "fdtight":
			// a reply carries more descriptors than the host has free slots for (RLIMIT_NOFILE): the kernel
			// installs some and truncates the rest; the call fails -- and nothing of it may stay open
			one := func() error {
				s, err := newSession(args[0], sessOpt{})
				if err != nil {
					return err
				}
				var old syscall.Rlimit
				syscall.Getrlimit(syscall.RLIMIT_NOFILE, &old)
				ents, _ := os.ReadDir("/proc/self/fd")
				maxfd := 0
				for _, e := range ents {
					if n, err := strconv.Atoi(e.Name()); err == nil && n > maxfd {
						maxfd = n
					}
				}
				// fill the holes below the highest descriptor so that exactly three slots are free
				var fill []int
				syscall.Setrlimit(syscall.RLIMIT_NOFILE, &syscall.Rlimit{Cur: uint64(maxfd + 1), Max: old.Max})
				for {
					fd, err := syscall.Dup(0)
					if err != nil {
						break
					}
					fill = append(fill, fd)
				}
				syscall.Setrlimit(syscall.RLIMIT_NOFILE, &syscall.Rlimit{Cur: uint64(maxfd + 4), Max: old.Max})
				var cmds []container.OpenCmd
				for j := 0; j < 8; j++ {
					cmds = append(cmds, container.OpenCmd{Path: fmt.Sprintf("/w/t%d", j), Flag: os.O_CREATE | os.O_WRONLY, Perm: 0644})
				}
				res, err := s.env.Open(cmds)
				if err == nil {
					for _, x := range res {
						if x.File != nil {
							x.File.Close()
						}
					}
				}
				syscall.Setrlimit(syscall.RLIMIT_NOFILE, &old)
				for _, fd := range fill {
					syscall.Close(fd)
				}
				s.close()
				return nil
			}
			if err := one(); err != nil {
				o.Setup = err.Error()
				break
			}
			time.Sleep(50 * time.Millisecond)
			o.Base = sample(nil)
			for rep := 0; rep < c.Reps; rep++ {
				if err := one(); err != nil {
					o.Setup = err.Error()
					break
				}
			}
			o.End = settle(nil, o.Base)
		case "clonefail":
			// forkexec.Start whose clone itself fails (clone3 into something that is not a cgroup directory),
			// interleaved with successful starts: the parent side must release everything it prepared
			one := func(i int) {
				r := forkexec.Runner{Args: []string{args[0], "n", "exit:0"}, Env: []string{"PATH=/bin"}, Files: nullFiles()}
				if i%3 != 2 {
					r.CgroupFd = devNull.Fd()
				}
				if pid, err := r.Start(); err == nil {
					var ws syscall.WaitStatus
					syscall.Wait4(pid, &ws, 0, nil)
				} else if i%3 == 2 {
					o.Setup = "plain start failed: " + err.Error()
				}
			}
			for i := 0; i < 6; i++ {
				one(i)
			}
			time.Sleep(50 * time.Millisecond)
			o.Base = sample(nil)
			for i := 0; i < c.Reps*6; i++ {
				one(i)
			}
			o.End = settle(nil, o.Base)
		case "buildfail":
			// Build that fails in the configuration step (bind mount of a source that does not exist):
			// the half-built environment must be torn down completely
			// ... or before it (the container root cannot be created: the init already runs by then)
			one := func(i int) {
				root, err := os.MkdirTemp("", "verif-c12-bf-")
				if err != nil {
					return
				}
				defer os.RemoveAll(root)
				b := container.Builder{Root: root, Mounts: mount.NewDefaultBuilder().
					WithBind("/verif-no-such-source-dir", "nowhere", true).WithTmpfs("w", "").Mounts}
				if i%2 == 1 {
					b = container.Builder{Root: filepath.Join(root, "no-such-dir"), TmpRoot: "ct-*"}
				}
				if e, err := b.Build(); err == nil {
					e.Destroy()
					o.Setup = "Build that cannot succeed did not fail"
				}
			}
			one(0)
			one(1)
			time.Sleep(50 * time.Millisecond)
			o.Base = sample(nil)
			for rep := 0; rep < c.Reps*2; rep++ {
				one(rep)
			}
			o.End = settle(nil, o.Base)
		case "build":
			one := func() error {
				s, err := newSession(args[0], sessOpt{})
				if err != nil {
					return err
				}
				s.env.Ping()
				s.close()
				return nil
			}
			if err := one(); err != nil {
				o.Setup = err.Error()
				break
			}
			time.Sleep(50 * time.Millisecond)
			o.Base = sample(nil)
			for rep := 0; rep < c.Reps; rep++ {
				if err := one(); err != nil {
					o.Setup = err.Error()
					break
				}
			}
			o.End = settle(nil, o.Base)
		case "ptrace", "unshare":
			one := func(i int) {
				nonce := fmt.Sprintf("vqc12cx%dx%dz", os.Getpid(), i)
				ctx, cancel := context.WithCancel(context.Background())
				defer cancel()
				progs := [][]string{{"exit:0"}, {"exit:3"}, {"tree:l()l()", "exit:0"}, {"sleep:60000"}, {"raise:11"}}
				pa := progs[i%len(progs)]
				if pa[0] == "sleep:60000" {
					time.AfterFunc(30*time.Millisecond, cancel)
				}
				if c.What == "ptrace" {
					lim := runner.Limit{TimeLimit: 200 * time.Second, MemoryLimit: runner.Size(2 << 30)}
					if i%7 == 5 {
						// a memory limit below what the process already uses: the run is ended at the very first stop
						lim.MemoryLimit = runner.Size(1)
					}
					r := &ptrace.Runner{Args: append([]string{args[0], nonce}, pa...), Env: []string{"PATH=/usr/bin:/bin"}, Files: nullFiles(),
						Seccomp: allowAllFilter(), Handler: allowAll{}, Limit: lim}
					done := make(chan struct{})
					go func() { r.Run(ctx); close(done) }()
					<-done
				} else {
					m, _ := mount.NewDefaultBuilder().WithBind(dirOf(args[0]), "probe", true).WithTmpfs("w", "").WithTmpfs("tmp", "").FilterNotExist().Build()
					r := &unshare.Runner{Args: append([]string{"/probe/cprobe", nonce}, pa...), Env: []string{"PATH=/usr/bin:/bin"}, Files: nullFiles(),
						WorkDir: "/w", Seccomp: allowAllFilter(), Root: root, Mounts: m, HostName: "verif", DomainName: "verif",
						Limit: runner.Limit{TimeLimit: 200 * time.Second, MemoryLimit: runner.Size(2 << 30)}}
					r.Run(ctx)
				}
			}
			for i := 0; i < 5; i++ {
				one(i)
			}
			time.Sleep(50 * time.Millisecond)
			o.Base = sample(nil)
			for i := 0; i < c.Reps*5; i++ {
				one(i)
			}
			o.End = settle(nil, o.Base)
		}
		out.Write(o)
	}
	return nil
}
