package main

import "github.com/criyle/go-sandbox/ptracer"

// allowAll is a ptrace handler that allows everything (the filter traces nothing anyway)
type allowAll struct{}

func (allowAll) CheckRead(string) ptracer.TraceAction    { return ptracer.TraceAllow }
func (allowAll) CheckWrite(string) ptracer.TraceAction   { return ptracer.TraceAllow }
func (allowAll) CheckStat(string) ptracer.TraceAction    { return ptracer.TraceAllow }
func (allowAll) CheckSyscall(string) ptracer.TraceAction { return ptracer.TraceAllow }
