package main

// API operations on a session, each bracketed by api call / ret events in the host event log.

import (
	"context"
	"fmt"
	"os"
	"strings"
	"syscall"
	"time"

	"github.com/criyle/go-sandbox/container"
	"github.com/criyle/go-sandbox/runner"
)

type opRec struct {
	K      string `json:"k"`      // ping open delete symlink reset exec destroy killinit
	V      string `json:"v"`      // variant
	SA     bool   `json:"sa"`     // exec: SyncAfterExec
	CB     string `json:"cb"`     // exec: SyncFunc none | ok | fail
	Cancel string `json:"cancel"` // exec: none | pre | running | race
}

type opResult struct {
	R      string `json:"r"` // ok | err | verdict | hang
	Status int    `json:"status"`
	Code   int    `json:"code"`
	Err    string `json:"err"`
	Ms     int64  `json:"ms"`
	Detail string `json:"detail,omitempty"`
}

const opTimeout = 20 * time.Second

var devNull *os.File

func nullFiles() []uintptr {
	if devNull == nil {
		devNull, _ = os.OpenFile("/dev/null", os.O_RDWR, 0)
	}
	return []uintptr{devNull.Fd(), devNull.Fd(), devNull.Fd()}
}

// withTimeout runs f; r.R = "hang" when it does not return in time (the goroutine is abandoned).
func withTimeout(f func() opResult) opResult {
	ch := make(chan opResult, 1)
	t0 := time.Now()
	go func() { ch <- f() }()
	select {
	case r := <-ch:
		r.Ms = time.Since(t0).Milliseconds()
		return r
	case <-time.After(opTimeout):
		return opResult{R: "hang", Ms: time.Since(t0).Milliseconds()}
	}
}

func errRes(err error) opResult {
	if err != nil {
		return opResult{R: "err", Err: err.Error()}
	}
	return opResult{R: "ok"}
}

// ensureFile creates path inside the container through the API (logged as an ordinary open op).
func (s *session) ensureFile(idx int, path string, perm os.FileMode, content string) {
	s.event("api", "call", "i", idx, "k", "open", "v", "ok", "sa", false, "cb", "none", "aux", true)
	r := withTimeout(func() opResult {
		res, err := s.env.Open([]container.OpenCmd{{Path: path, Flag: os.O_CREATE | os.O_WRONLY | os.O_TRUNC, Perm: perm}})
		if err != nil {
			return errRes(err)
		}
		if res[0].Err != nil {
			return errRes(res[0].Err)
		}
		res[0].File.WriteString(content)
		res[0].File.Close()
		return opResult{R: "ok"}
	})
	d := ""
	if r.R == "ok" {
		d = "."
	}
	s.event("api", "ret", "i", idx, "r", r.R, "status", 0, "code", 0, "err", r.Err, "ms", r.Ms, "detail", d)
}

func (s *session) do(idx int, op opRec, made map[string]bool) opResult {
	// auxiliary files some variants need
	switch {
	case op.K == "exec" && op.V == "enoexec" && !made["garbage"]:
		s.ensureFile(idx, "/w/garbage", 0755, "this is not an executable\n")
		made["garbage"] = true
	case op.K == "exec" && op.V == "noexec" && !made["noexec"]:
		s.ensureFile(idx, "/w/noexec", 0644, "#!/bin/sh\n")
		made["noexec"] = true
	case op.K == "delete" && op.V == "ok":
		s.ensureFile(idx, fmt.Sprintf("/w/del%d", idx), 0644, "x")
	}
	code := 10 + idx%200
	side := "api"
	if op.K == "destroy" || op.K == "killinit" {
		side = "apix" // not a protocol call: judged at the API layer only
	}
	s.event(side, "call", "i", idx, "k", op.K, "v", op.V, "sa", op.SA, "cb", cbOrNone(op), "cancel", op.Cancel, "code", code)
	var r opResult
	switch op.K {
	case "ping":
		if op.V == "stall" {
			// the container does not run for longer than Ping's bound, then goes on and answers
			syscall.Kill(s.initPid, syscall.SIGSTOP)
			for i := 0; i < 400 && !allThreadsStopped(s.initPid); i++ {
				time.Sleep(5 * time.Millisecond)
			}
		}
		r = withTimeout(func() opResult { return errRes(s.env.Ping()) })
		if op.V == "stall" {
			syscall.Kill(s.initPid, syscall.SIGCONT)
			time.Sleep(100 * time.Millisecond) // let the late pong get onto the wire
		}
	case "reset":
		r = withTimeout(func() opResult { return errRes(s.env.Reset()) })
	case "delete":
		p := fmt.Sprintf("/w/del%d", idx)
		if op.V == "emptypath" {
			p = "" // a request field left at its zero value
		} else if op.V == "huge" {
			p = "/w/" + strings.Repeat("h", 40000) // the request itself exceeds one packet
		} else if op.V != "ok" {
			p = "/w/does-not-exist"
		}
		r = withTimeout(func() opResult { return errRes(s.env.Delete(p)) })
	case "symlink":
		r = withTimeout(func() opResult {
			var l []container.SymbolicLink
			switch op.V {
			case "ok":
				l = []container.SymbolicLink{{LinkPath: fmt.Sprintf("/w/lnk%d", idx), Target: "/tmp"}}
			case "bad":
				l = []container.SymbolicLink{{LinkPath: "/w", Target: "/tmp"}} // exists
			}
			es, err := s.env.Symlink(l)
			if err != nil {
				return errRes(err)
			}
			d := ""
			for _, e := range es {
				if e != nil {
					d += "E"
				} else {
					d += "."
				}
			}
			return opResult{R: "ok", Detail: d}
		})
	case "open":
		r = withTimeout(func() opResult {
			var cmds []container.OpenCmd
			switch op.V {
			case "ok":
				cmds = []container.OpenCmd{{Path: fmt.Sprintf("/w/f%d", idx), Flag: os.O_CREATE | os.O_WRONLY, Perm: 0644}}
			case "bad":
				cmds = []container.OpenCmd{{Path: "/w/no/such/dir/f", Flag: os.O_CREATE | os.O_WRONLY, Perm: 0644}}
			case "max": // the largest batch one reply can carry (253 descriptors), all of them succeed
				for j := 0; j < 253; j++ {
					cmds = append(cmds, container.OpenCmd{Path: fmt.Sprintf("/w/mx%d_%d", idx, j), Flag: os.O_CREATE | os.O_WRONLY, Perm: 0644})
				}
			case "longbatch": // the request fits into one packet, the per-item errors of the reply do not
				for j := 0; j < 31; j++ {
					cmds = append(cmds, container.OpenCmd{Path: "/w/nodir/" + strings.Repeat("p", 1016), Flag: os.O_RDONLY})
				}
			case "mixed":
				cmds = []container.OpenCmd{
					{Path: fmt.Sprintf("/w/m%da", idx), Flag: os.O_CREATE | os.O_WRONLY, Perm: 0644},
					{Path: "/w/no/such/dir/f", Flag: os.O_RDONLY},
					{Path: fmt.Sprintf("/w/m%db", idx), Flag: os.O_CREATE | os.O_WRONLY, Perm: 0644}}
			}
			res, err := s.env.Open(cmds)
			if err != nil {
				return errRes(err)
			}
			d := ""
			for _, x := range res {
				if x.Err != nil {
					d += "E"
				} else {
					d += "."
					x.File.Close()
				}
			}
			if len(d) > 40 && strings.Count(d, ".") == len(d) {
				d = fmt.Sprintf(".x%d", len(d))
			}
			return opResult{R: "ok", Detail: d}
		})
	case "exec":
		r = s.doExec(idx, op, code)
	case "destroy":
		r = withTimeout(func() opResult { s.env.Destroy(); return opResult{R: "ok"} })
	case "killinit":
		s.event("harness", "killinit")
		syscall.Kill(s.initPid, syscall.SIGKILL)
		r = opResult{R: "ok"}
	default:
		r = opResult{R: "err", Err: "unknown op " + op.K}
	}
	s.event(side, "ret", "i", idx, "r", r.R, "status", r.Status, "code", r.Code, "err", r.Err, "ms", r.Ms, "detail", r.Detail)
	return r
}

func cbOrNone(op opRec) string {
	if op.K != "exec" || op.CB == "" {
		return "none"
	}
	return op.CB
}

func (s *session) doExec(idx int, op opRec, code int) opResult {
	nonce := fmt.Sprintf("vq%d_%dz", os.Getpid(), idx)
	var args []string
	switch op.V {
	case "run", "fdexec", "cgexec":
		// exit 99 if an environment variable of an EARLIER request is still there
		args = []string{"/probe/cprobe", nonce, fmt.Sprintf("envexit:VQMARK:99:%d", code)}
	case "envrun":
		args = []string{"/probe/cprobe", nonce, fmt.Sprintf("envexit:VQMARK:%d:98", code)}
	case "runslow":
		args = []string{"/probe/cprobe", nonce, "sleep:30", fmt.Sprintf("exit:%d", code)}
	case "sleep":
		args = []string{"/probe/cprobe", nonce, "sleep:60000"}
	case "term":
		args = []string{"/probe/cprobe", nonce, "raise:15"}
	case "noent":
		args = []string{"definitely-not-there-" + nonce}
	case "noentabs":
		args = []string{"/w/not-there-" + nonce}
	case "noexec":
		args = []string{"/w/noexec"}
	case "enoexec":
		args = []string{"/w/garbage"}
	case "dir":
		args = []string{"/w"}
	case "emptyargs":
		args = nil
	case "hugearg":
		args = []string{"/probe/cprobe", nonce, "exit:0", strings.Repeat("A", 40000)}
	}
	ctx, cancel := context.WithCancel(context.Background())
	defer cancel()
	doCancel := func() {
		s.event("harness", "cancel")
		cancel()
	}
	p := container.ExecveParam{
		Args:          args,
		Env:           []string{"PATH=/usr/bin:/bin"},
		Files:         nullFiles(),
		SyncAfterExec: op.SA,
	}
	if op.V == "envrun" {
		p.Env = append(p.Env, "VQMARK=1")
	}
	if op.V == "fdexec" {
		// executable passed as a descriptor (fexecve); Args[0] must still name something lookPath accepts
		if f, err := os.Open(s.probeDir + "/cprobe"); err == nil {
			defer f.Close()
			p.ExecFile = f.Fd()
		}
	}
	if op.V == "cgexec" {
		// the program is started directly inside a cgroup passed as a descriptor (CLONE_INTO_CGROUP)
		if dir, err := os.MkdirTemp("/sys/fs/cgroup/unified", "verif-cg-"); err == nil {
			defer syscall.Rmdir(dir)
			if f, err := os.Open(dir); err == nil {
				defer f.Close()
				p.CgroupFD = f.Fd()
			}
		}
	}
	switch op.CB {
	case "ok":
		p.SyncFunc = func(pid int) error { s.event("harness", "cb", "res", "ok", "pid", pid); return nil }
	case "fail":
		p.SyncFunc = func(pid int) error {
			s.event("harness", "cb", "res", "fail", "pid", pid)
			return fmt.Errorf("sync func says no")
		}
	}
	switch op.Cancel {
	case "pre":
		doCancel()
	case "running":
		t := time.AfterFunc(150*time.Millisecond, doCancel)
		defer t.Stop()
	case "race":
		t := time.AfterFunc(time.Duration(idx%7)*5*time.Millisecond, doCancel)
		defer t.Stop()
	}
	return withTimeout(func() opResult {
		res := s.env.Execve(ctx, p)
		return classify(res)
	})
}

func classify(res runner.Result) opResult {
	if res.Status == runner.StatusRunnerError {
		return opResult{R: "err", Status: int(res.Status), Err: res.Error}
	}
	return opResult{R: "verdict", Status: int(res.Status), Code: res.ExitStatus, Err: res.Error}
}

func trimErr(s string) string {
	s = strings.TrimSpace(s)
	if len(s) > 200 {
		s = s[:200]
	}
	return s
}
