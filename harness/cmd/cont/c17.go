package main

// C17: concurrent sandboxes in one process are independent.  Rounds of K concurrent runs mixing the
// ptrace runner, the namespace runner, several container environments and concurrent calls on one
// environment.  Every run has its own exit code and its own output file (descriptor 3); the program
// writes its descriptor table to it.  The same workload is also run alone (baseline).

import (
	"bufio"
	"context"
	"fmt"
	"os"
	"strings"
	"sync"
	"syscall"
	"time"

	"verifharness/hx"

	"github.com/criyle/go-sandbox/container"
	"github.com/criyle/go-sandbox/pkg/mount"
	"github.com/criyle/go-sandbox/pkg/seccomp"
	"github.com/criyle/go-sandbox/pkg/seccomp/libseccomp"
	"github.com/criyle/go-sandbox/ptracer"
	"github.com/criyle/go-sandbox/runner"
	"github.com/criyle/go-sandbox/runner/ptrace"
	"github.com/criyle/go-sandbox/runner/unshare"
)

func init() { hx.Register("c17", c17Main) }

// pathWatch allows everything and counts the paths it is shown that lie in another run's directory
type pathWatch struct {
	own, base  string
	n, foreign int
}

func (h *pathWatch) see(p string) ptracer.TraceAction {
	h.n++
	if strings.HasPrefix(p, h.base+"/t") && !strings.HasPrefix(p, h.own+"/") && p != h.own {
		h.foreign++
	}
	return ptracer.TraceAllow
}
func (h *pathWatch) CheckRead(p string) ptracer.TraceAction  { return h.see(p) }
func (h *pathWatch) CheckWrite(p string) ptracer.TraceAction { return h.see(p) }
func (h *pathWatch) CheckStat(p string) ptracer.TraceAction  { return h.see(p) }
func (h *pathWatch) CheckSyscall(string) ptracer.TraceAction { return ptracer.TraceAllow }

var (
	pathFilter     seccomp.Filter
	pathFilterOnce sync.Once
)

func tracePathFilter() seccomp.Filter {
	pathFilterOnce.Do(func() {
		f, err := (&libseccomp.Builder{Trace: []string{"open", "openat", "stat", "lstat", "access", "execve"}, Default: libseccomp.ActionAllow}).Build()
		if err != nil {
			panic(err)
		}
		pathFilter = f
	})
	return pathFilter
}

type c17Round struct {
	ID   int      `json:"id"`
	Runs []string `json:"runs"` // ptrace | unshare | envA | envB | envC (calls on shared environments) | ptrace-cancel | envA-cancel
	Solo bool     `json:"solo"` // run them one after the other instead of concurrently (baseline)
}

type c17Run struct {
	Round   int      `json:"round"`
	Slot    int      `json:"slot"`
	Kind    string   `json:"kind"`
	Solo    bool     `json:"solo"`
	Want    int      `json:"want"` // exit code the program was told to use
	R       string   `json:"r"`
	Status  int      `json:"status"`
	Code    int      `json:"code"`
	Err     string   `json:"err"`
	Fds     []string `json:"fds"`     // "fd:own" | "fd:null" | "fd:other:<ino>" (+":cx" if close-on-exec) as seen by the program
	Marker  string   `json:"marker"`  // text the program wrote to its own file
	Traps   int      `json:"traps"`   // ptracet: path traps presented to this run's handler
	Foreign int      `json:"foreign"` // ptracet: of those, paths that belong to another run
	Ms      int64    `json:"ms"`
}

// c17 <probe> <rounds> <out>
func c17Main(args []string) error {
	if len(args) != 3 {
		return fmt.Errorf("usage")
	}
	rounds, err := hx.ReadLines[c17Round](args[1])
	if err != nil {
		return err
	}
	out, err := hx.NewLineWriter(args[2])
	if err != nil {
		return err
	}
	defer out.Close()
	probe := args[0]
	root, err := os.MkdirTemp("", "verif-c17-root-")
	if err != nil {
		return err
	}
	defer os.RemoveAll(root)
	tmp, err := os.MkdirTemp("", "verif-c17-")
	if err != nil {
		return err
	}
	defer os.RemoveAll(tmp)
	nullFiles()
	var nullSt syscall.Stat_t
	syscall.Fstat(int(devNull.Fd()), &nullSt)
	// shared environments (no event recording: the sink is process wide)
	envs := map[string]container.Environment{}
	for _, n := range []string{"envA", "envB", "envC"} {
		b := container.Builder{Root: root, Mounts: mount.NewDefaultBuilder().WithBind(dirOf(probe), "probe", true).
			WithTmpfs("w", "").WithTmpfs("tmp", "").FilterNotExist().Mounts}
		e, err := b.Build()
		for try := 0; err != nil && try < 3; try++ {
			time.Sleep(time.Second)
			e, err = b.Build()
		}
		if err != nil {
			return fmt.Errorf("build %s: %w", n, err)
		}
		envs[n] = e
		defer e.Destroy()
	}
	um, err := mount.NewDefaultBuilder().WithBind(dirOf(probe), "probe", true).WithTmpfs("w", "").WithTmpfs("tmp", "").FilterNotExist().Build()
	if err != nil {
		return err
	}
	for _, rd := range rounds {
		var wg sync.WaitGroup
		start := make(chan struct{})
		res := make([]c17Run, len(rd.Runs))
		for i, kind := range rd.Runs {
			one := func(i int, kind string) {
				want := 20 + (rd.ID*17+i*7)%200
				r := c17Run{Round: rd.ID, Slot: i, Kind: kind, Solo: rd.Solo, Want: want, Fds: []string{}}
				own, err := os.CreateTemp(tmp, "own")
				if err != nil {
					r.R, r.Err = "setup", err.Error()
					res[i] = r
					return
				}
				defer own.Close()
				var ownSt syscall.Stat_t
				syscall.Fstat(int(own.Fd()), &ownSt)
				marker := fmt.Sprintf("m%dx%d", rd.ID, i)
				nonce := fmt.Sprintf("vqc17x%dx%dx%dz", os.Getpid(), rd.ID, i)
				prog := []string{"PROBE", nonce, "say:3:" + marker, "fdsfd:3", "sleep:15", fmt.Sprintf("exit:%d", want)}
				files := append(nullFiles(), own.Fd())
				ctx, cancel := context.WithCancel(context.Background())
				defer cancel()
				base, cancelled, _ := strings.Cut(kind, "-")
				fileOps := cancelled == "ops"
				long := cancelled == "long"
				burst := cancelled == "burst"
				if fileOps || long || burst {
					cancelled = ""
				}
				if burst {
					prog = []string{"PROBE", nonce, "say:3:" + marker, "fdsfd:3", fmt.Sprintf("exit:%d", want)}
				}
				if long {
					// a run that outlives Ping's 3 s socket deadline while other calls queue on the same environment
					prog = []string{"PROBE", nonce, "say:3:" + marker, "fdsfd:3", "sleep:7000", fmt.Sprintf("exit:%d", want)}
				}
				if cancelled != "" {
					prog = []string{"PROBE", nonce, "say:3:" + marker, "fdsfd:3", "sleep:60000"}
				}
				if cancelled == "openloss" {
					// an environment of its own is destroyed while one of its calls (an Open, which receives
					// descriptors) is in flight: that call fails -- and nobody else notices anything
					<-start
					t0 := time.Now()
					o := withTimeout(func() opResult {
						before := map[int]bool{}
						for _, c := range childrenOf(os.Getpid()) {
							before[c] = true
						}
						b := container.Builder{Root: root, Mounts: mount.NewDefaultBuilder().WithBind(dirOf(probe), "probe", true).
							WithTmpfs("w", "").WithTmpfs("tmp", "").FilterNotExist().Mounts}
						e, err := b.Build()
						for try := 0; err != nil && try < 3; try++ {
							time.Sleep(time.Second)
							e, err = b.Build()
						}
						if err != nil {
							return opResult{R: "setup", Err: err.Error()}
						}
						defer e.Destroy()
						initPid := 0
						for _, c := range childrenOf(os.Getpid()) {
							if !before[c] {
								if b, _ := os.ReadFile(fmt.Sprintf("/proc/%d/cmdline", c)); strings.Contains(string(b), "container_init") {
									initPid = c
								}
							}
						}
						if initPid == 0 {
							return opResult{R: "setup", Err: "init of the new environment not found"}
						}
						syscall.Kill(initPid, syscall.SIGSTOP)
						for k := 0; k < 1000 && !allThreadsStopped(initPid); k++ {
							time.Sleep(time.Millisecond)
						}
						ch := make(chan error, 1)
						go func() {
							res, err := e.Open([]container.OpenCmd{{Path: "/w/x", Flag: os.O_CREATE | os.O_WRONLY, Perm: 0644}})
							for _, x := range res {
								if x.File != nil {
									x.File.Close()
								}
							}
							ch <- err
						}()
						time.Sleep(50 * time.Millisecond)
						e.Destroy()
						if err := <-ch; err != nil {
							return opResult{R: "err", Err: err.Error()}
						}
						return opResult{R: "ok"}
					})
					r.Ms = time.Since(t0).Milliseconds()
					r.R, r.Err = o.R, trimErr(o.Err)
					res[i] = r
					return
				}
				<-start
				if !rd.Solo && rd.ID%2 == 1 {
					// every other round starts its runs staggered instead of all at once: a launch then begins
					// while its neighbours' launches are finishing (descriptor numbers being released and re-used)
					time.Sleep(time.Duration(i*3) * time.Millisecond)
				}
				t0 := time.Now()
				if cancelled != "" {
					time.AfterFunc(40*time.Millisecond, cancel)
				}
				if fileOps {
					// file operations and pings on a shared environment, concurrent with other calls on it:
					// create an own file, write the marker, read it back through a second Open, delete it
					e := envs[base]
					path := fmt.Sprintf("/w/ops-%d-%d", rd.ID, i)
					time.Sleep(time.Duration(200+i*150) * time.Millisecond) // spread the calls over a long neighbour's life
					o := withTimeout(func() opResult {
						if err := e.Ping(); err != nil {
							return errRes(err)
						}
						w, err := e.Open([]container.OpenCmd{{Path: path, Flag: os.O_CREATE | os.O_WRONLY | os.O_TRUNC, Perm: 0644}})
						if err != nil {
							return errRes(err)
						}
						if w[0].Err != nil {
							return errRes(w[0].Err)
						}
						w[0].File.WriteString(marker)
						w[0].File.Close()
						rd2, err := e.Open([]container.OpenCmd{{Path: path, Flag: os.O_RDONLY}})
						if err != nil {
							return errRes(err)
						}
						if rd2[0].Err != nil {
							return errRes(rd2[0].Err)
						}
						b := make([]byte, 64)
						n, _ := rd2[0].File.Read(b)
						rd2[0].File.Close()
						if err := e.Delete(path); err != nil {
							return errRes(err)
						}
						if err := e.Ping(); err != nil {
							return errRes(err)
						}
						return opResult{R: "ok", Detail: string(b[:n])}
					})
					r.Ms = time.Since(t0).Milliseconds()
					r.R, r.Err, r.Marker = o.R, trimErr(o.Err), o.Detail
					res[i] = r
					return
				}
				var o opResult
				switch base {
				case "ptracet":
					// traced path syscalls: the handler of this run must only ever be shown this run's paths
					dir := fmt.Sprintf("%s/t%dx%d", tmp, rd.ID, i)
					os.MkdirAll(dir, 0755)
					mine := dir + "/private"
					prog = []string{probe, nonce, "say:3:" + marker, "fdsfd:3"}
					for k := 0; k < 60; k++ {
						// (a path pointer the tracer cannot read must be presented as the empty path, never as
						// whatever another run's trap left behind)
						prog = append(prog, "append:"+mine+":x", "badopen:1")
					}
					prog = append(prog, fmt.Sprintf("exit:%d", want))
					h := &pathWatch{own: dir, base: tmp}
					rr := &ptrace.Runner{Args: prog, Env: []string{"PATH=/usr/bin:/bin"}, Files: files, Seccomp: tracePathFilter(),
						Handler: h, Limit: runner.Limit{TimeLimit: 200 * time.Second, MemoryLimit: runner.Size(2 << 30)}}
					o = withTimeout(func() opResult { return classify(rr.Run(ctx)) })
					r.Traps, r.Foreign = h.n, h.foreign
				case "ptrace":
					prog[0] = probe
					rr := &ptrace.Runner{Args: prog, Env: []string{"PATH=/usr/bin:/bin"}, Files: files, Seccomp: allowAllFilter(),
						Handler: allowAll{}, Limit: runner.Limit{TimeLimit: 200 * time.Second, MemoryLimit: runner.Size(2 << 30)}}
					if burst {
						// a dozen short runs back to back, each with a sync callback, next to fifteen neighbours doing
						// the same: launches begin while other launches finish, over and over; every one of them must
						// still be this slot's own run
						rr.SyncFunc = func(int) error { return nil }
						for k := 0; k < 12; k++ {
							own.Truncate(0)
							own.Seek(0, 0)
							o = withTimeout(func() opResult { return classify(rr.Run(ctx)) })
							if o.R != "verdict" || o.Status != 7 || o.Code != want {
								break
							}
						}
						break
					}
					o = withTimeout(func() opResult { return classify(rr.Run(ctx)) })
				case "unshare":
					prog[0] = "/probe/cprobe"
					rr := &unshare.Runner{Args: prog, Env: []string{"PATH=/usr/bin:/bin"}, Files: files, WorkDir: "/w",
						Seccomp: allowAllFilter(), Root: root, Mounts: um, HostName: "verif", DomainName: "verif",
						Limit: runner.Limit{TimeLimit: 200 * time.Second, MemoryLimit: runner.Size(2 << 30)}}
					o = withTimeout(func() opResult { return classify(rr.Run(ctx)) })
				default:
					prog[0] = "/probe/cprobe"
					e := envs[base]
					p := container.ExecveParam{Args: prog, Env: []string{"PATH=/usr/bin:/bin"}, Files: files, SyncAfterExec: i%2 == 1}
					o = withTimeout(func() opResult { return classify(e.Execve(ctx, p)) })
				}
				r.Ms = time.Since(t0).Milliseconds()
				r.R, r.Status, r.Code, r.Err = o.R, o.Status, o.Code, trimErr(o.Err)
				// what the program saw
				own.Seek(0, 0)
				sc := bufio.NewScanner(own)
				first := true
				for sc.Scan() {
					line := sc.Text()
					if first {
						r.Marker = line
						first = false
						continue
					}
					var fd, cx int
					var dev, ino uint64
					if n, _ := fmt.Sscanf(line, "%d %d %d %d", &fd, &dev, &ino, &cx); n != 4 {
						continue
					}
					who := fmt.Sprintf("other:%d", ino)
					if ino == ownSt.Ino && dev == ownSt.Dev {
						who = "own"
					} else if ino == nullSt.Ino {
						who = "null"
					}
					s := fmt.Sprintf("%d:%s", fd, who)
					if cx == 1 {
						s += ":cx"
					}
					r.Fds = append(r.Fds, s)
				}
				for _, p := range scanNonce(nonce) {
					syscall.Kill(p, syscall.SIGKILL)
				}
				res[i] = r
			}
			if rd.Solo {
				close(start)
				one(i, kind)
				start = make(chan struct{})
			} else {
				wg.Add(1)
				go func(i int, kind string) { defer wg.Done(); one(i, kind) }(i, kind)
			}
		}
		if !rd.Solo {
			close(start)
			fin := make(chan struct{})
			go func() { wg.Wait(); close(fin) }()
			select {
			case <-fin:
			case <-time.After(150 * time.Second):
				// some run of this round is stuck where no timeout applies (e.g. reading its own file through a
				// descriptor number that now belongs to something else): report what there is and leave -- the
				// process is not in a state in which further rounds would mean anything
				for i := range res {
					if res[i].Kind == "" {
						res[i] = c17Run{Round: rd.ID, Slot: i, Kind: rd.Runs[i], Solo: rd.Solo, R: "hang", Fds: []string{}}
					}
					out.Write(res[i])
				}
				out.Close()
				os.Exit(0)
			}
		}
		hung := false
		for _, r := range res {
			out.Write(r)
			hung = hung || r.R == "hang"
		}
		if hung {
			// a run that never came back may hold process-wide state (fork lock, environment mutex): what
			// follows in this process would only repeat the finding
			break
		}
	}
	return nil
}
