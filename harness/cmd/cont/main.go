// cont: driver for the container RPC family (C10 C11 C12 C16 C17).  No oracle here: it runs real
// container environments, records hook events of both processes and API-level call/return lines,
// and writes them as JSON lines that TLC validates against ContainerProto / ContainerAPI.
package main

import (
	"encoding/json"
	"fmt"
	"os"
	"time"

	"verifharness/hx"

	"github.com/criyle/go-sandbox/container"
)

func main() {
	// An embedding application normally has background goroutines (timers, cgo threads); the Go runtime's
	// "all goroutines are asleep" detector then never fires.  Without this goroutine a statically built init
	// that blocks for ever would be killed by that detector and a hang would pass for an exit (seeded C16-e).
	go func() {
		for {
			time.Sleep(time.Hour)
		}
	}()
	// when re-executed as the container init this never returns
	if err := container.Init(); err != nil {
		fmt.Fprintln(os.Stderr, "container init:", err)
		os.Exit(1)
	}
	hx.Register("c10", c10Main)
	hx.Main()
}

type history struct {
	ID     int     `json:"id"`
	Ops    []opRec `json:"ops"`
	Delays string  `json:"delays,omitempty"` // init-side VERIF_DELAYS
	Gate   string  `json:"gate,omitempty"`   // host-side gate scenario
}

type traceOut struct {
	ID     int      `json:"id"`
	Ops    []opRec  `json:"ops"`
	Host   []rawEv  `json:"host"`
	Init   []rawEv  `json:"init"`
	Stderr []string `json:"stderr"`
	Hang   bool     `json:"hang"`
	Setup  string   `json:"setup,omitempty"` // non-empty: the history could not be set up (inconclusive)
}

// c10 <probe> <histories.ndjson> <out.ndjson>
func c10Main(args []string) error {
	if len(args) != 3 {
		return fmt.Errorf("usage: c10 <cprobe> <histories> <out>")
	}
	hs, err := hx.ReadLines[history](args[1])
	if err != nil {
		return err
	}
	out, err := hx.NewLineWriter(args[2])
	if err != nil {
		return err
	}
	defer out.Close()
	for _, h := range hs {
		out.Write(runHistory(args[0], h))
	}
	return nil
}

func runHistory(probe string, h history) traceOut {
	t := traceOut{ID: h.ID, Ops: h.Ops}
	so := sessOpt{delays: h.Delays}
	if h.Gate == "nested" {
		// tmpfs mounts nested in the two tmpfs mounts Reset empties: removing the inner mount points fails
		// (EBUSY), so one Reset meets two failures
		so.extraTmp = []string{"w/keep", "tmp/keep"}
	}
	s, err := newSession(probe, so)
	for try := 0; err != nil && try < 3; try++ { // Build's ping has a 3 s deadline: retry on a loaded machine
		time.Sleep(time.Second)
		s, err = newSession(probe, so)
	}
	if err != nil {
		t.Setup = err.Error()
		return t
	}
	installGates(s, h.Gate)
	made := map[string]bool{}
	for i, op := range h.Ops {
		r := s.do(i+1, op, made)
		if r.R == "hang" {
			t.Hang = true
			break
		}
	}
	if s.close() {
		t.Hang = true
	}
	t.Host, t.Init, t.Stderr = s.snapshot()
	if t.Host == nil {
		t.Host = []rawEv{}
	}
	if t.Init == nil {
		t.Init = []rawEv{}
	}
	if t.Stderr == nil {
		t.Stderr = []string{}
	}
	return t
}

var _ = json.Marshal
