package main

import (
	"bytes"
	"sync"
	"syscall"
	"time"

	"github.com/criyle/go-sandbox/pkg/verifhook"
)

// installGates arranges host-side schedules.  Gates never decide a verdict: they only make a
// particular interleaving likely.
//
//	"wait-both":  hold the API goroutine in front of waitForDone's select for a while so that the
//	              result reply and a cancellation are both pending when the select runs
//	"stale":      in front of waitForDone's select (first Execve only): wait until the result reply has
//	              been received, then SIGKILL the container init and wait until the receive loop has
//	              seen the end of the stream -- the select then finds a reply AND a closed done channel
func installGates(s *session, scenario string) {
	switch scenario {
	case "wait-both":
		verifhook.SetGate("host.waitForDone", func() { time.Sleep(120 * time.Millisecond) })
	case "wait-short":
		verifhook.SetGate("host.waitForDone", func() { time.Sleep(20 * time.Millisecond) })
	case "stale":
		var once sync.Once
		verifhook.SetGate("host.waitForDone", func() {
			once.Do(func() {
				s.waitHostEvent(`"ev":"recvd","k":"result"`, 5*time.Second)
				s.event("harness", "killinit")
				syscall.Kill(s.initPid, syscall.SIGKILL)
				s.waitHostEvent(`"ev":"recverr"`, 5*time.Second)
			})
		})
	}
}

// waitHostEvent polls the recorded host events for one containing the given JSON fragment.
func (s *session) waitHostEvent(frag string, max time.Duration) bool {
	deadline := time.Now().Add(max)
	for time.Now().Before(deadline) {
		s.mu.Lock()
		for _, e := range s.hostEv {
			if bytes.Contains(e, []byte(frag)) {
				s.mu.Unlock()
				return true
			}
		}
		s.mu.Unlock()
		time.Sleep(2 * time.Millisecond)
	}
	return false
}
