package main

// C11: cancel / Destroy at any moment.  Runs a (sleeping or quickly ending) program under each of
// the three runners, cancels the context (or destroys the environment) at the given instant and
// records how and when the call returned and what is left of the program.

import (
	"context"
	"fmt"
	"os"
	"strings"
	"sync"
	"syscall"
	"time"

	"verifharness/hx"

	"github.com/criyle/go-sandbox/container"
	"github.com/criyle/go-sandbox/pkg/mount"
	"github.com/criyle/go-sandbox/pkg/seccomp"
	"github.com/criyle/go-sandbox/pkg/seccomp/libseccomp"
	"github.com/criyle/go-sandbox/ptracer"
	"github.com/criyle/go-sandbox/runner"
	"github.com/criyle/go-sandbox/runner/ptrace"
	"github.com/criyle/go-sandbox/runner/unshare"
)

func init() { hx.Register("c11", c11Main) }

type c11Case struct {
	ID      int    `json:"id"`
	Runner  string `json:"runner"`
	Prog    string `json:"prog"`
	At      int    `json:"at"`
	NFiles  int    `json:"nfiles"`
	Destroy bool   `json:"destroy"`
	Frozen  bool   `json:"frozen"`
	Rep     int    `json:"rep"`
}

type c11Obs struct {
	c11Case
	R         string `json:"r"`
	Status    int    `json:"status"`
	Code      int    `json:"code"`
	Err       string `json:"err"`
	Elapsed   int64  `json:"elapsed"`
	Alive     int    `json:"alive"`
	InitAlive bool   `json:"init_alive"`
	Follow    string `json:"follow"` // container, not destroyed: the next cancelled Execve on the same environment ("" = not applicable)
	Setup     string `json:"setup,omitempty"`
}

var (
	allowFilter     seccomp.Filter
	allowFilterOnce sync.Once
)

func allowAllFilter() seccomp.Filter {
	allowFilterOnce.Do(func() {
		f, err := (&libseccomp.Builder{Default: libseccomp.ActionAllow}).Build()
		if err != nil {
			panic(err)
		}
		allowFilter = f
	})
	return allowFilter
}

// fastBan soft-bans at once: the tracer cycles through wait4 / register read / path read / resume as fast
// as it can, so a cancellation's SIGKILL lands in every phase of that loop
type fastBan struct{}

func (fastBan) CheckRead(string) ptracer.TraceAction    { return ptracer.TraceBan }
func (fastBan) CheckWrite(string) ptracer.TraceAction   { return ptracer.TraceBan }
func (fastBan) CheckStat(string) ptracer.TraceAction    { return ptracer.TraceBan }
func (fastBan) CheckSyscall(string) ptracer.TraceAction { return ptracer.TraceBan }

// slowBan soft-bans every path syscall it is asked about, after a short pause
type slowBan struct{}

func (slowBan) pause() ptracer.TraceAction                { time.Sleep(3 * time.Millisecond); return ptracer.TraceBan }
func (b slowBan) CheckRead(string) ptracer.TraceAction    { return b.pause() }
func (b slowBan) CheckWrite(string) ptracer.TraceAction   { return b.pause() }
func (b slowBan) CheckStat(string) ptracer.TraceAction    { return b.pause() }
func (b slowBan) CheckSyscall(string) ptracer.TraceAction { return b.pause() }

var (
	banFilterV    seccomp.Filter
	banFilterOnce sync.Once
)

func banFilter() seccomp.Filter {
	banFilterOnce.Do(func() {
		f, err := (&libseccomp.Builder{Trace: []string{"mkdir", "mkdirat"}, Default: libseccomp.ActionAllow}).Build()
		if err != nil {
			panic(err)
		}
		banFilterV = f
	})
	return banFilterV
}

func manyFiles(n int) []uintptr {
	base := nullFiles()
	fs := make([]uintptr, n)
	for i := range fs {
		fs[i] = base[0]
	}
	return fs
}

// c11 <probe> <cases> <out>
func c11Main(args []string) error {
	if len(args) != 3 {
		return fmt.Errorf("usage: c11 <cprobe> <cases> <out>")
	}
	cases, err := hx.ReadLines[c11Case](args[1])
	if err != nil {
		return err
	}
	out, err := hx.NewLineWriter(args[2])
	if err != nil {
		return err
	}
	defer out.Close()
	// the unshare runner needs a root to pivot into
	root, err := os.MkdirTemp("", "verif-c11-root-")
	if err != nil {
		return err
	}
	defer os.RemoveAll(root)
	for _, c := range cases {
		out.Write(c11One(args[0], root, c))
	}
	return nil
}

func progArgs(path, nonce, prog string) []string {
	if prog == "quick" {
		return []string{path, nonce, "sleep:12", "exit:7"}
	}
	if prog == "tree" {
		// descendants that ignore signals and leave the program's session / process group
		return []string{path, nonce, "tree:sil()gil()il()", "sleep:60000"}
	}
	return []string{path, nonce, "sleep:60000"}
}

func waitGone(nonce string, max time.Duration) int {
	deadline := time.Now().Add(max)
	for {
		n := 0
		for _, p := range scanNonce(nonce) {
			if pidAlive(p) {
				n++
			}
		}
		if n == 0 || time.Now().After(deadline) {
			return n
		}
		time.Sleep(5 * time.Millisecond)
	}
}

func c11One(probe, root string, c c11Case) c11Obs {
	o := c11Obs{c11Case: c}
	nonce := fmt.Sprintf("vqc11x%dx%dz", os.Getpid(), c.ID)
	ctx, cancel := context.WithCancel(context.Background())
	defer cancel()
	if c.At < 0 && !c.Destroy {
		cancel()
	}
	var run func(context.Context) opResult
	var sess *session
	switch c.Runner {
	case "ptrace":
		r := &ptrace.Runner{
			Args: progArgs(probe, nonce, c.Prog), Env: []string{"PATH=/usr/bin:/bin"}, Files: manyFiles(c.NFiles),
			Seccomp: allowAllFilter(), Handler: allowAll{},
			Limit: runner.Limit{TimeLimit: 200 * time.Second, MemoryLimit: runner.Size(2 << 30)},
		}
		run = func(ctx context.Context) opResult { return classify(r.Run(ctx)) }
	case "ptrace-ban", "ptrace-trap":
		// every mkdir of the program traps; the handler takes its time and answers with a soft ban, so a
		// cancellation often finds the tracee in a seccomp stop with the handler still deciding
		dir, err := os.MkdirTemp("", "verif-c11-ban-")
		if err != nil {
			o.Setup = err.Error()
			return o
		}
		defer os.RemoveAll(dir)
		prog := []string{probe, nonce, "mkdirs:" + dir + ":1000000"}
		if c.Prog == "quick" {
			prog = []string{probe, nonce, "mkdirs:" + dir + ":4", "exit:7"}
		}
		var h ptrace.Handler = slowBan{}
		if c.Runner == "ptrace-trap" {
			h = fastBan{}
		}
		r := &ptrace.Runner{
			Args: prog, Env: []string{"PATH=/usr/bin:/bin"}, Files: manyFiles(c.NFiles),
			Seccomp: banFilter(), Handler: h,
			Limit: runner.Limit{TimeLimit: 200 * time.Second, MemoryLimit: runner.Size(2 << 30)},
		}
		run = func(ctx context.Context) opResult { return classify(r.Run(ctx)) }
	case "unshare":
		m, err := mount.NewDefaultBuilder().WithBind(dirOf(probe), "probe", true).WithTmpfs("w", "").WithTmpfs("tmp", "").FilterNotExist().Build()
		if err != nil {
			o.Setup = err.Error()
			return o
		}
		r := &unshare.Runner{
			Args: progArgs("/probe/cprobe", nonce, c.Prog), Env: []string{"PATH=/usr/bin:/bin"}, Files: manyFiles(c.NFiles),
			WorkDir: "/w", Seccomp: allowAllFilter(), Root: root, Mounts: m, HostName: "verif", DomainName: "verif",
			Limit: runner.Limit{TimeLimit: 200 * time.Second, MemoryLimit: runner.Size(2 << 30)},
		}
		run = func(ctx context.Context) opResult { return classify(r.Run(ctx)) }
	case "container", "container-sa":
		s, err := newSession(probe, sessOpt{})
		for try := 0; err != nil && try < 3; try++ {
			time.Sleep(time.Second)
			s, err = newSession(probe, sessOpt{})
		}
		if err != nil {
			o.Setup = err.Error()
			return o
		}
		sess = s
		p := container.ExecveParam{
			Args: progArgs("/probe/cprobe", nonce, c.Prog), Env: []string{"PATH=/usr/bin:/bin"}, Files: manyFiles(c.NFiles),
			SyncAfterExec: c.Runner == "container-sa",
		}
		switch c.Prog {
		case "open":
			run = func(context.Context) opResult {
				res, err := s.env.Open([]container.OpenCmd{{Path: "/w/f", Flag: os.O_CREATE | os.O_WRONLY, Perm: 0644}})
				if err != nil {
					return errRes(err)
				}
				for _, x := range res {
					if x.File != nil {
						x.File.Close()
					}
				}
				return opResult{R: "ok"}
			}
		case "ping":
			run = func(context.Context) opResult { return errRes(s.env.Ping()) }
		case "reset":
			run = func(context.Context) opResult { return errRes(s.env.Reset()) }
		case "delete":
			run = func(context.Context) opResult { return errRes(s.env.Delete("/w/nothing")) }
		default:
			run = func(ctx context.Context) opResult { return classify(s.env.Execve(ctx, p)) }
		}
	default:
		o.Setup = "unknown runner"
		return o
	}
	if c.Rep >= 600 && sess != nil {
		// see RunCancel_Gen!BothPending: the API goroutine is held in front of waitForDone's select until the
		// program has ended AND the context is cancelled, so the select finds both cases ready
		installGates(sess, "wait-both")
	}
	cancelThenLoss := c.Rep >= 300 && c.Rep < 600 && c.Frozen && c.Destroy // see RunCancel_Gen!CancelThenLoss
	if cancelThenLoss {
		// let the program start, stop the init, cancel, and only then destroy
		c.Frozen = false
	}
	if c.Frozen && sess != nil {
		// stop the container init: whatever is called now stays in flight until Destroy
		syscall.Kill(sess.initPid, syscall.SIGSTOP)
		// the group stop is asynchronous: wait until every thread of init has stopped
		dl := time.Now().Add(5 * time.Second)
		for !allThreadsStopped(sess.initPid) && time.Now().Before(dl) {
			time.Sleep(time.Millisecond)
		}
		if !allThreadsStopped(sess.initPid) {
			o.Setup = "container init did not stop"
			sess.close()
			return o
		}
	}
	// the action at the chosen instant
	if c.At >= 0 {
		act := cancel
		if c.Destroy {
			act = func() { go sess.env.Destroy() }
		}
		if cancelThenLoss {
			act = func() {
				syscall.Kill(sess.initPid, syscall.SIGSTOP)
				dl := time.Now().Add(5 * time.Second)
				for !allThreadsStopped(sess.initPid) && time.Now().Before(dl) {
					time.Sleep(time.Millisecond)
				}
				cancel()
				time.Sleep(60 * time.Millisecond)
				go sess.env.Destroy()
			}
		}
		t := time.AfterFunc(time.Duration(c.At)*time.Millisecond, act)
		defer t.Stop()
	}
	t0 := time.Now()
	ch := make(chan opResult, 1)
	go func() {
		ch <- run(ctx)
	}()
	var r opResult
	select {
	case r = <-ch:
	case <-time.After(25 * time.Second):
		r = opResult{R: "hang"}
	}
	o.Elapsed = time.Since(t0).Milliseconds()
	if cancelThenLoss {
		o.Frozen = false // judged as Destroy in flight: an error, or the verdict if the kill was answered first
	}
	o.R, o.Status, o.Code, o.Err = r.R, r.Status, r.Code, trimErr(r.Err)
	// what is left of the program (grace: the kill is asynchronous for descendants)
	o.Alive = waitGone(nonce, 3*time.Second)
	if sess != nil && !c.Destroy && r.R != "hang" && (c.Prog == "sleep" || c.Prog == "tree" || c.Prog == "quick") {
		// the environment is reused: the next run, cancelled too, must come back as well
		ctx2, cancel2 := context.WithCancel(context.Background())
		t2 := time.AfterFunc(60*time.Millisecond, cancel2)
		ch2 := make(chan opResult, 1)
		nonce2 := nonce + "b"
		go func() {
			ch2 <- classify(sess.env.Execve(ctx2, container.ExecveParam{
				Args: progArgs("/probe/cprobe", nonce2, "sleep"), Env: []string{"PATH=/usr/bin:/bin"}, Files: manyFiles(3),
				SyncAfterExec: c.Runner == "container-sa"}))
		}()
		select {
		case r2 := <-ch2:
			o.Follow = r2.R
			if r2.R == "verdict" {
				o.Follow = fmt.Sprintf("verdict:%d", r2.Status)
			}
		case <-time.After(15 * time.Second):
			o.Follow = "hang"
		}
		t2.Stop()
		cancel2()
		for _, p := range scanNonce(nonce2) {
			syscall.Kill(p, syscall.SIGKILL)
		}
	}
	if sess != nil {
		if c.Destroy {
			time.Sleep(50 * time.Millisecond)
			dl := time.Now().Add(3 * time.Second)
			for pidAlive(sess.initPid) && time.Now().Before(dl) {
				time.Sleep(5 * time.Millisecond)
			}
			o.InitAlive = pidAlive(sess.initPid)
		}
		sess.close()
	}
	// never leak a sleeping program, whatever happened
	for _, p := range scanNonce(nonce) {
		syscall.Kill(p, syscall.SIGKILL)
	}
	if r.R == "hang" {
		// the abandoned goroutine may still hold the runner: give up on this process state
		o.Setup = ""
	}
	return o
}

func allThreadsStopped(pid int) bool {
	tasks, err := os.ReadDir(fmt.Sprintf("/proc/%d/task", pid))
	if err != nil || len(tasks) == 0 {
		return false
	}
	for _, t := range tasks {
		b, err := os.ReadFile(fmt.Sprintf("/proc/%d/task/%s/stat", pid, t.Name()))
		if err != nil {
			return false
		}
		s := string(b)
		i := strings.LastIndex(s, ") ")
		if i < 0 || i+2 >= len(s) || (s[i+2] != 'T' && s[i+2] != 't') {
			return false
		}
	}
	return true
}

func dirOf(p string) string {
	for i := len(p) - 1; i >= 0; i-- {
		if p[i] == '/' {
			return p[:i]
		}
	}
	return "."
}
