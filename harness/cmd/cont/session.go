package main

// session: one real container environment with hook-event collection on both sides.

import (
	"bufio"
	"encoding/json"
	"fmt"
	"os"
	"path/filepath"
	"strconv"
	"strings"
	"sync"
	"time"

	"github.com/criyle/go-sandbox/container"
	"github.com/criyle/go-sandbox/pkg/mount"
	"github.com/criyle/go-sandbox/pkg/verifhook"
)

type rawEv = json.RawMessage

type session struct {
	env      container.Environment
	root     string
	probeDir string // host directory bind-mounted read-only at /probe
	initPid  int

	mu     sync.Mutex
	hostEv []rawEv
	initEv []rawEv
	errTxt []string // other stderr lines of init

	stderrDone chan struct{}
	skipInit   bool // still dropping the build-phase events of init
	sawConf    bool
}

var sessMu sync.Mutex // one traced session at a time (the host sink is process-wide)

type sessOpt struct {
	delays   string // VERIF_DELAYS for init ("name=ms,...")
	cred     bool
	extraTmp []string
}

func childrenOf(pid int) []int {
	var out []int
	tasks, _ := os.ReadDir(fmt.Sprintf("/proc/%d/task", pid))
	for _, t := range tasks {
		b, err := os.ReadFile(fmt.Sprintf("/proc/%d/task/%s/children", pid, t.Name()))
		if err != nil {
			continue
		}
		for _, f := range strings.Fields(string(b)) {
			if n, err := strconv.Atoi(f); err == nil {
				out = append(out, n)
			}
		}
	}
	return out
}

// newSession builds an environment; Build's own ping has a 3 s bound, which a heavily loaded machine can
// exceed before the init is even scheduled: that is a set-up failure, retried here.
func newSession(probe string, opt sessOpt) (*session, error) {
	s, err := newSession1(probe, opt)
	for try := 0; err != nil && try < 4 && (strings.Contains(err.Error(), "not responding to ping") || strings.Contains(err.Error(), "i/o timeout")); try++ {
		time.Sleep(time.Duration(200*(try+1)) * time.Millisecond)
		s, err = newSession1(probe, opt)
	}
	return s, err
}

func newSession1(probe string, opt sessOpt) (*session, error) {
	s := &session{stderrDone: make(chan struct{}), skipInit: true}
	root, err := os.MkdirTemp("", "verif-cont-")
	if err != nil {
		return nil, err
	}
	s.root = root
	s.probeDir = filepath.Dir(probe)
	pr, pw, err := os.Pipe()
	if err != nil {
		return nil, err
	}
	env := []string{"VERIF_EVENTS=stderr"}
	if opt.delays != "" {
		env = append(env, "VERIF_DELAYS="+opt.delays)
	}
	verifhook.SetChildEnv(env)
	verifhook.SetSink(func(line []byte) {
		b := append([]byte(nil), line...)
		s.mu.Lock()
		s.hostEv = append(s.hostEv, b)
		s.mu.Unlock()
	})
	go s.readInit(pr)

	before := map[int]bool{}
	for _, c := range childrenOf(os.Getpid()) {
		before[c] = true
	}
	mb := mount.NewDefaultBuilder().
		WithBind(s.probeDir, "probe", true).
		WithTmpfs("w", "").
		WithTmpfs("tmp", "")
	for _, t := range opt.extraTmp {
		mb = mb.WithTmpfs(t, "")
	}
	b := container.Builder{
		Root:   root,
		Mounts: mb.FilterNotExist().Mounts,
		Stderr: pw,
	}
	e, err := b.Build()
	pw.Close()
	if err != nil {
		verifhook.SetSink(nil)
		os.RemoveAll(root)
		return nil, fmt.Errorf("build: %w", err)
	}
	s.env = e
	for _, c := range childrenOf(os.Getpid()) {
		if !before[c] {
			if b, _ := os.ReadFile(fmt.Sprintf("/proc/%d/cmdline", c)); strings.Contains(string(b), "container_init") {
				s.initPid = c
			}
		}
	}
	// host events of the build phase (ping, conf) are dropped: the model starts after conf
	s.mu.Lock()
	s.hostEv = nil
	s.mu.Unlock()
	return s, nil
}

func (s *session) readInit(pr *os.File) {
	defer close(s.stderrDone)
	defer pr.Close()
	sc := bufio.NewScanner(pr)
	sc.Buffer(make([]byte, 1<<20), 1<<20)
	const pfx = "@@VERIF "
	for sc.Scan() {
		line := sc.Text()
		if !strings.HasPrefix(line, pfx) {
			s.mu.Lock()
			s.errTxt = append(s.errTxt, line)
			s.mu.Unlock()
			continue
		}
		raw := []byte(line[len(pfx):])
		s.mu.Lock()
		if s.skipInit {
			// drop the build phase: everything up to and including the "sent" that follows "handle conf"
			var e struct {
				Ev string `json:"ev"`
				K  string `json:"k"`
			}
			json.Unmarshal(raw, &e)
			if e.Ev == "handle" && e.K == "conf" {
				s.sawConf = true
			} else if s.sawConf && e.Ev == "sent" {
				s.skipInit = false
			}
			s.mu.Unlock()
			continue
		}
		s.initEv = append(s.initEv, append([]byte(nil), raw...))
		s.mu.Unlock()
	}
}

func (s *session) event(side, name string, kv ...any) { verifhook.Event(side, name, kv...) }

// close destroys the environment and waits for init's stderr to end (all init events collected).
func (s *session) close() (hangs bool) {
	done := make(chan struct{})
	go func() {
		s.env.Destroy()
		close(done)
	}()
	select {
	case <-done:
	case <-time.After(20 * time.Second):
		hangs = true
	}
	select {
	case <-s.stderrDone:
	case <-time.After(10 * time.Second):
		hangs = true
	}
	verifhook.SetSink(nil)
	verifhook.ClearGates()
	os.RemoveAll(s.root)
	return hangs
}

func (s *session) snapshot() (host, init []rawEv, txt []string) {
	s.mu.Lock()
	defer s.mu.Unlock()
	return append([]rawEv(nil), s.hostEv...), append([]rawEv(nil), s.initEv...), append([]string(nil), s.errTxt...)
}
