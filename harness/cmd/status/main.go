package main

// Driver of family `status` (C09): runs the probe under the three runners for every TLC-generated
// case and writes what the runner reported next to what the probe itself reported.
// No oracle here: the lines are judged by TLC against spec/Status.tla.

import (
	"encoding/json"
	"fmt"
	"os"
	"strconv"
	"sync"
	"time"

	"verifharness/hx"
	"verifharness/internal/limrun"

	"github.com/criyle/go-sandbox/container"
	"github.com/criyle/go-sandbox/runner"
)

func main() {
	container.Init() // no-op unless we are the re-executed container init
	hx.Register("run", runMain)
	hx.Register("one", oneMain)
	hx.Main()
}

type stCase struct {
	Runner string `json:"runner"`
	Kind   string `json:"kind"` // exit | raise | fault | sys | ext | badexec
	N      int    `json:"n"`
	Child  string `json:"child"` // none | exitfirst | outlive | killed | orphanexit | orphankilled
	CN     int    `json:"cn"`
	Core   int    `json:"core"`   // 1: core dumps enabled (RLIMIT_CORE > 0, writable work dir)
	Cancel string `json:"cancel"` // none | afterend | race: the caller cancels its context around the program's end
	Rep    int    `json:"rep"`    // repetition number (racing cases)
}

type stObs struct {
	stCase
	Status     int           `json:"status"`
	Exit       int           `json:"exit"`
	ErrLen     int           `json:"errlen"`
	Err        string        `json:"err"`
	Report     []limrun.Line `json:"report"`
	EOF        bool          `json:"eof"`
	Ext        bool          `json:"ext"`
	Setup      string        `json:"setup"`
	Cancelled  bool          `json:"cancelled"`
	EndedFirst bool          `json:"endedfirst"` // the program was a zombie (ended by itself) before the cancel
}

var faultName = map[int]string{11: "segv", 4: "ill", 8: "fpe", 5: "trap", 7: "bus"}

func specOf(c stCase) (limrun.Spec, error) {
	s := limrun.Spec{Runner: c.Runner, Limit: runner.Limit{TimeLimit: 1 << 40, MemoryLimit: 1 << 40}, Core: c.Core == 1}
	if c.Cancel != "" && c.Cancel != "none" {
		s.Cancel = c.Cancel
	}
	switch c.Child {
	case "none", "outlive":
		s.Child = c.Child
	case "exitfirst", "killed", "orphanexit", "orphankilled":
		s.Child = c.Child + ":" + strconv.Itoa(c.CN)
	default:
		return s, fmt.Errorf("bad child %q", c.Child)
	}
	switch c.Kind {
	case "exit", "raise":
		s.Args = []string{c.Kind, strconv.Itoa(c.N)}
	case "fault":
		f, ok := faultName[c.N]
		if !ok {
			return s, fmt.Errorf("no fault for signal %d", c.N)
		}
		s.Args = []string{"fault", f}
	case "sys":
		s.KillNr = 1023
		s.Args = []string{"sys", "1023"}
	case "ext":
		s.ExtSignal = c.N
		s.Args = []string{"ext", strconv.Itoa(c.N)}
	case "badexec":
		s.BadExec = true
	default:
		return s, fmt.Errorf("bad kind %q", c.Kind)
	}
	return s, nil
}

func runCase(e *limrun.Env, c stCase) stObs {
	o := stObs{stCase: c, Report: []limrun.Line{}}
	s, err := specOf(c)
	if err != nil {
		o.Setup = err.Error()
		return o
	}
	out := e.Run(s)
	o.Status = int(out.Result.Status)
	o.Exit = out.Result.ExitStatus
	o.Err = out.Result.Error
	o.ErrLen = len(out.Result.Error)
	if out.Report != nil {
		o.Report = out.Report
	}
	o.EOF = out.ReportEOF
	o.Ext = out.ExtSent
	o.Setup = out.Setup
	o.Cancelled, o.EndedFirst = out.Cancelled, out.EndedFirst
	return o
}

// status run <cases.ndjson> <obs.ndjson> <probe> <scratch> <parallel> <essential> <budget_s>
// The first <essential> cases are always executed; the following ones until the budget is used up.
func runMain(args []string) error {
	if len(args) != 7 {
		return fmt.Errorf("want: cases obs probe scratch parallel essential budget_s")
	}
	essential, _ := strconv.Atoi(args[5])
	budget, _ := strconv.Atoi(args[6])
	deadline := time.Now().Add(time.Duration(budget) * time.Second)
	cases, err := hx.ReadLines[stCase](args[0])
	if err != nil {
		return err
	}
	w, err := hx.NewLineWriter(args[1])
	if err != nil {
		return err
	}
	defer w.Close()
	par, _ := strconv.Atoi(args[4])
	if par < 1 {
		par = 1
	}
	obs := make([]stObs, len(cases))
	done := make([]bool, len(cases))
	ch := make(chan int)
	var wg sync.WaitGroup
	errs := make(chan error, par)
	for k := 0; k < par; k++ {
		wg.Add(1)
		go func() {
			defer wg.Done()
			e, err := limrun.NewEnv(args[2], args[3])
			if err != nil {
				errs <- err
				for range ch {
				}
				return
			}
			defer e.Close()
			for i := range ch {
				obs[i] = runCase(e, cases[i])
				done[i] = true
			}
		}()
	}
	for i := range cases {
		if i >= essential && time.Now().After(deadline) {
			break
		}
		ch <- i
	}
	close(ch)
	wg.Wait()
	select {
	case err := <-errs:
		return err
	default:
	}
	for i, o := range obs {
		if done[i] {
			w.Write(o)
		}
	}
	if ents, err := os.ReadDir("/proc/self/fd"); err == nil {
		fmt.Fprintln(os.Stderr, "open descriptors at the end:", len(ents))
	}
	return nil
}

// status one <probe> <scratch> '<case json>'   (manual experiments)
func oneMain(args []string) error {
	var c stCase
	if err := json.Unmarshal([]byte(args[2]), &c); err != nil {
		return err
	}
	e, err := limrun.NewEnv(args[0], args[1])
	if err != nil {
		return err
	}
	defer e.Close()
	o := runCase(e, c)
	b, _ := json.Marshal(o)
	fmt.Fprintln(os.Stdout, string(b))
	return nil
}
